#!/bin/bash
# Runs every claimed check's quick (or $1) tier on /repo's current tree, one after the other; summary in /tmp/runall.log
tier=${1:-quick}
cd /verif
for id in $(python3 -c "import json;print(' '.join(c['property_id'] for c in json.load(open('/verif/MANIFEST.json'))['checks']))"); do
  start=$(date +%s)
  timeout 3600 ./bin/gosym check $id --tier $tier > /tmp/runall_$id.log 2>&1
  rc=$?
  echo "$id rc=$rc $(($(date +%s)-start))s viol=$(grep -c '^VIOLATION' /tmp/runall_$id.log) known=$(grep -c '^KNOWN' /tmp/runall_$id.log) mism=$(grep -c 'ENGINE-MISMATCH' /tmp/runall_$id.log) $(grep -o 'paths=[0-9]* completed=[0-9]* not_explored=[0-9]*' /tmp/runall_$id.log | head -1) $(grep -c VACUOUS /tmp/runall_$id.log)vac"
done
