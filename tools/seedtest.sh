#!/bin/bash
# usage: seedtest.sh <seed dir name under /verif/seeded> [check ids...]
# Applies the seeded change to a scratch worktree of /repo's HEAD (outside /repo and /verif), runs the checks
# against it (VERIF_REPO), records what was caught, removes the worktree.
seed=$1; shift
pid=${seed%%-*}
checks=${@:-$pid}
wt=$(mktemp -d /tmp/seedwt.XXXXXX)
rmdir $wt
git -C /repo worktree add -q $wt HEAD || exit 2
git -C $wt apply /verif/seeded/$seed/patch.diff || { echo "$seed: patch does not apply"; git -C /repo worktree remove --force $wt; exit 2; }
for c in $checks; do
  cd /verif
  VERIF_REPO=$wt timeout 3600 ${GOSYM:-./bin/gosym} check $c > /tmp/seed_${seed}_$c.log 2>&1
  rc=$?
  nv=$(grep -c '^VIOLATION' /tmp/seed_${seed}_$c.log)
  echo "$seed check=$c rc=$rc violations=$nv mismatches=$(grep -c 'ENGINE-MISMATCH' /tmp/seed_${seed}_$c.log) inconclusive=$(grep -c '^INCONCLUSIVE' /tmp/seed_${seed}_$c.log) :: $(grep '^VIOLATION' /tmp/seed_${seed}_$c.log | sed 's/.*label=//' | head -3 | tr '\n' ' ' | cut -c1-300)"
done
git -C /repo worktree remove --force $wt
