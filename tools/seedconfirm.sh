#!/bin/bash
# usage: seedconfirm.sh <worktree> <n> <demo target dir relative to the tree, e.g. repl>
# Confirms in the scratch worktree: with the patch the tree builds, the existing tests pass and the demo fails;
# without the patch the demo passes.
wt=$1; n=$2; dir=$3
export GOFLAGS=-mod=mod GOPROXY=off
cd $wt || exit 2
git checkout -q -- . ; git clean -fdq -e MUTATION
pk=$(go list ./... | grep -v /MUTATION)
cp MUTATION/demo${n}_test.go $dir/zz_demo_test.go
clean=$(go test $TAGS -vet=off -count=1 ./$dir/ 2>&1 | tail -1)
git apply MUTATION/patch$n.diff || { echo "patch does not apply"; rm -f $dir/zz_demo_test.go; exit 2; }
build=$(go build ./... 2>&1 | tail -1)
withp=$(go test $TAGS -vet=off -count=1 ./$dir/ 2>&1 | tail -1)
rm -f $dir/zz_demo_test.go
suite=$(go test -vet=off -count=1 $pk 2>&1 | grep -v "no test files" | grep -vc "^ok")
git checkout -q -- . ; git clean -fdq -e MUTATION
echo "clean-tree demo: [$clean] | patched build: [$build] demo: [$withp] | existing suite non-ok lines with patch: $suite"
