#!/usr/bin/env python3
"""Regenerates /verif/MANIFEST.json from the table below (claimed checks) and the not-applicable reasons."""
import json
props=[json.loads(l) for l in open('/verif/properties.jsonl')]
ids=[p['id'] for p in props]
TECH="bounded symbolic execution of the real Go SSA (go/ssa) with SMT (z3 bit-vectors/FP): every path of the harness is decided by solver queries over all values of its symbolic inputs; counterexamples replayed natively"
NOTE_COMMON=" Trusted: the go/ssa-based executor (validated by native replay of every counterexample and by conformance runs), z3, the Go toolchain. Inconclusive paths (unsupported construct, solver unknown, budget) are reported in the evidence and never counted as verified."
CLAIMED={}
def claim(id, text, note, design):
    CLAIMED[id]=dict(text=text,note=note,design=design)
exec(open('/verif/tools/claims.py').read())
NA={}
exec(open('/verif/tools/na.py').read())
checks=[]
for i in ids:
    if i in CLAIMED:
        c=CLAIMED[i]
        checks.append({"property_id":i,
          "quick_cmd":f"./bin/gosym check {i} --tier quick",
          "thorough_cmd":f"./bin/gosym check {i} --tier thorough",
          "evidence_file":f"/verif/evidence/{i}.json",
          "replay_cmd_template":"./bin/gosym replay {path}",
          "engine":"gosym",
          "level_claimed":{"category":"model_checking","text":c['text'],"design_ref":c['design']},
          "level_note":c['note']+NOTE_COMMON,
          "technique":TECH})
m={"version":1,
"setup_cmd":"cd /verif/engine && GOFLAGS=-mod=mod GOPROXY=off go build -o ../bin/gosym .",
"hooks":{"guard":"verif","enable":"harness files tagged //go:build verif are injected as overlays (go/packages Config.Overlay for the symbolic run, go test -tags verif -overlay for native replay); the only hook code in /repo is the crash-point calls of commit 04499b7 (repl/verif_hook.go, object/verif_hook.go; no-ops without -tags verif)","baseline_off_cmd":"cd /repo && GOFLAGS=-mod=mod go test -json -vet=off -count=1 ./...","source_commits":["04499b7"],"add_only":True},
"engines":[{"name":"gosym","path":"/verif/engine","serves_properties":sorted(CLAIMED),"kind_free_text":"symbolic executor for Go SSA (go/ssa v0.29.0) emitting SMT-LIB2 to z3 4.8.12; bounded symbolic model checking of the real code, regenerated from /repo's working tree on every run, with native replay of counterexamples"}],
"checks":checks,
"notes":"All checks decide their property by solver queries over symbolic executions of the real code within stated bounds (see evidence.coverage.bounds); nothing is claimed outside the bounds. Known findings are listed in /verif/known_findings.txt.",
"not_applicable":[{"property_id":i,"reason":NA.get(i,"check not built yet (engine under construction)")} for i in ids if i not in CLAIMED]}
json.dump(m,open('/verif/MANIFEST.json','w'),indent=1)
print("claimed",sorted(CLAIMED),"na",[i for i in ids if i not in CLAIMED])
