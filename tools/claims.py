claim("C16",
 "For every input of up to N bytes over all 256 byte values (step lemma: N<=4 quick / 6 thorough, from position 0 with arbitrary prior lexer flags; whole-stream: N<=2 / 3), both lexer modes, the solver shows on every execution path of the real lexer that tokens tile the input: progress, literal==span for identifiers/numbers/operators, string and comment spans and the escape table against an independent decoder, interning (same pointer), keywords never IDENT, end marker within n+1 tokens and repeating. Bounded model checking, not a proof: longer inputs are outside the claim.",
 "Harness builds Lexer values directly (in-package overlay).",
 "DESIGN.md §4 C16")
