claim("C16",
 "For every input of up to N bytes over all 256 byte values (step lemma: N<=4 quick / 6 thorough, from position 0 with arbitrary prior lexer flags; whole-stream: N<=2 / 3), both lexer modes, the solver shows on every execution path of the real lexer that tokens tile the input: progress, literal==span for identifiers/numbers/operators, string and comment spans and the escape table against an independent decoder, interning (same pointer), keywords never IDENT, end marker within n+1 tokens and repeating. Bounded model checking, not a proof: longer inputs are outside the claim.",
 "Harness builds Lexer values directly (in-package overlay).",
 "DESIGN.md §4 C16")
claim("C20",
 "For every set of up to 3 inserted words (4 thorough) of length 0..2 (3) over the alphabets {a,b} and {a,0x00,0xff}, in every insertion order, and every query of length 0..3, the solver explores all executions of the real trie.Insert/Contains/PrefixAll and of the repl completion callback and shows: membership iff inserted non-empty, prefix results = the inserted words with that prefix, once each, in byte order, reported length = their longest common prefix, completion result extends the typed text to a prefix of a defined word without slicing out of range.",
 "Bytes are symbolic under an alphabet assumption (children[char] forks once per feasible byte). Reference set semantics written in the harness.",
 "DESIGN.md §4 C20")
claim("C17",
 "For every file name of length 0..6 (8 thorough) over all 256 byte values the solver shows on every path of the real sanitizeFileName that an accepted name is [A-Za-z0-9_]*.gr (only .gr in empty-only mode) and that acceptance depends on the name only; for names of 0..5 (6) bytes and the no-argument form, save() and load() run against a file-system model create/read only such files, leave planted foreign files (../secret.gr, sub/x.gr, notes.txt) untouched, and a rejected request changes nothing; for all 16 configurations exec/run/load/save are registered exactly when allowed. Counterexamples are replayed natively inside a chroot scratch tree.",
 "Relative to the file-system model (DESIGN §2.7); image.save's constant grol.png and callbacks built on unencoded libraries are outside the claim.",
 "DESIGN.md §4 C17")
claim("C12",
 "For every triple of values drawn from the kind vectors listed in the evidence (all 125 triples over Integer/Float/Boolean/Nil/String, all ordered pairs over 13 kinds including small arrays, maps, functions, errors, extensions, quotes and macros) and for ALL scalar contents (every int64, every float64 bit pattern, strings of 0..2 arbitrary bytes), the solver shows on every path of the real object.Cmp/Equals: result in {-1,0,1}, reflexive, antisymmetric, transitive (<= and equivalence), == symmetric, transitive, implies order-equivalence, holds for a copy, and no panic. Floating-point queries are discharged in z3's FP theory (no reals).",
 "Containers limited to 2 elements / 1 pair without nesting; the comparison operators of the evaluator call the same Cmp (C01/C07 harnesses exercise them).",
 "DESIGN.md §4 C12")
