#!/bin/bash
# runs every thorough command sequentially on the unchanged tree; log /tmp/thorough.log
cd /verif
: > /tmp/thorough.log
for id in ${@:-C20 C16 C18 C17 C13 C15 C10 C19 C06 C09 C08 C14 C05 C03 C02 C11 C12 C04 C07 C01}; do
  s=$(date +%s)
  timeout 5400 ./bin/gosym check $id --tier thorough > /tmp/thor_$id.log 2>&1
  rc=$?
  echo "$id rc=$rc wall=$(( $(date +%s) - s ))s $(grep -E '^SUMMARY' /tmp/thor_$id.log | cut -c1-260) viol=$(grep -c '^VIOLATION' /tmp/thor_$id.log) vac=$(grep -c '^VACUOUS' /tmp/thor_$id.log)" >> /tmp/thorough.log
done
echo ALLDONE >> /tmp/thorough.log
