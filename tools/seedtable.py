#!/usr/bin/env python3
"""Records, per seeded change, which checks were run against it and what caught it; rewrites seeded/*/meta.json
and prints the markdown table used in DESIGN.md section 10.5. The data below is transcribed from the
tools/seedtest.sh logs of the runs named in each entry."""
import json, os
R = {
 # seed: (one-line description, [checks run], first run result, what was strengthened (or ""), final catching labels)
 "C01-1": ("<< reduces its count modulo 64", ["C01"], "caught", "", ["intop/<</count-of-64-or-more-gives-zero", "reference/printed-output"]),
 "C01-2": ("array + appends into the left operand's spare capacity", ["C01", "C06"], "missed by C01, caught by C06", "C01 W layer: three storage-sharing programs (two results from one left operand above the threshold; result built from a slice)", ["reference/final-value", "reference/printed-output", "C06 alias/large-container/other-binding-unchanged"]),
 "C01-3": ("a call returning a closure is memoized", ["C01"], "caught", "", ["reference/printed-output"]),
 "C02-1": ("call expression does not restore the precedence for what follows", ["C02"], "missed", "20 operand forms x 8 operator pairs on either side of a parenthesised lower-precedence operand", ["roundtrip/tree-changed#f(a) * (b + c) ... (50 labels)"]),
 "C02-2": ("compact separator before [ only for literal statements", ["C02"], "missed", "22 x 30 statement-pair skeletons with both separators", ["roundtrip/tree-changed#statement pair: <expression statement> then [b][0]|compact (3 labels)"]),
 "C03-1": ("stale previous node after a nested block ending in a block comment", ["C03"], "missed", "comment-at-block-edge (8 blocks x 11 bodies x 6 tails) and comment-between-statements families; these also exposed two base-tree defects (fixed: 5f6d51c, f11ece8)", ["fixpoint/second-format-differs#comment at a block edge: ... (35 labels)"]),
 "C03-2": ("process-wide small-integer node cache keyed by value", ["C03"], "missed", "VerifFormatHistory + vFresh: format after another input vs format in a fresh process (heap rollback under gosym, self re-exec natively); the solver finds b = 18 after a = 0x12", ["history/format-depends-on-earlier-parses|normal", "history/format-depends-on-earlier-parses|compact"]),
 "C04-1": ("(first batch)", ["C04"], "caught", "", ["memoization/printed-output"]),
 "C04-2": ("(first batch)", ["C04"], "caught", "", ["memoization/printed-output", "memoization/result-value"]),
 "C05-1": ("return out of a counted loop does not restore the loop variable", ["C05"], "caught (rebased on the current tree)", "", ["registers#for o=k2 {for a=k0 {if a==k1 {return a}; ...}} | println(a)/printed-output (3 labels)"]),
 "C05-2": ("(first batch)", ["C05"], "missed at first", "sessions with a callee writing a global from inside a counted loop", ["registers#got = -1 | func f(){for i = 5 {if i == k1 {got = i}}} | f() | got/result-value"]),
 "C06-1": ("(first batch)", ["C06"], "caught", "", ["alias/large-container/other-binding-unchanged", "alias/small-container/other-binding-unchanged"]),
 "C06-2": ("(first batch)", ["C06"], "caught", "", ["alias/large-container/other-binding-unchanged"]),
 "C07-1": ("(first batch)", ["C07"], "caught", "", ["go-panic:slice bounds out of range@(*eval.State).evalIndexRangeExpression"]),
 "C07-2": ("(first batch)", ["C07"], "caught", "", ["go-panic:index out of range@object.Cmp"]),
 "C08-1": ("number-literal failure returns nil without an error", ["C08"], "missed (ENGINE-MISMATCH: ParseFloat's verdict was a free boolean)", "strconv.ParseFloat on symbolic bytes: syntax now decided by strconv.special/readFloat executed from their SSA", ["total/tree-has-a-missing-child"]),
 "C08-2": ("block loop does not advance on ;", ["C08"], "missed (paths ran into the step bound: inconclusive)", "HangLabel: a path above 3M SSA steps is a non-termination candidate, confirmed when the native run does not finish in 20 s", ["total/does-not-terminate"]),
 "C09-1": ("repeat size wraps before the memory guard", ["C09"], "caught", "", ["guard/guarded-size-wrapped", "guard/result-size-overflows"]),
 "C09-2": ("context checked per loop iteration / call only, list loops forgotten", ["C09"], "missed (the cancellation clock was the number of context checks, which the change itself reduces)", "VerifCancelAtOutput: the output writer cancels the context after the k-th printed line", ["cancel-at-output/returns-an-error"]),
 "C10-1": ("(first batch)", ["C10"], "caught", "", ["session/later-input-prints-differently"]),
 "C10-2": ("caller's environment not restored when a call returns an error", ["C10"], "missed", "after every input the state must be back at the root scope, depth 0, writer in place; histories whose failing call has parameters named like globals; definitions between two failures", ["session/state-not-back-at-top-level/current-scope-is-not-the-root-scope"]),
 "C11-1": ("(first batch)", ["C11"], "caught", "", ["append/values"]),
 "C11-2": ("(first batch)", ["C11"], "caught", "", ["range/keys"]),
 "C12-1": ("(first batch)", ["C12"], "caught", "", ["cmp/transitive"]),
 "C12-2": ("(first batch)", ["C12"], "caught", "", ["cmp/antisymmetric", "cmp/equivalence-transitive", "cmp/transitive"]),
 "C13-1": ("array-literal template altered by its first use", ["C13"], "caught", "", ["macro/definition-altered-by-use"]),
 "C13-2": ("a macro defined right after another one is lost", ["C13"], "missed (the harness skipped a run whose macro was not registered)", "a listed macro that is not registered is a violation; job with four adjacent definitions", ["macro/definition-not-registered"]),
 "C14-1": ("\\xNN decoded as a rune", ["C14"], "caught", "", ["load/value-changed#str1:x = s (3 labels)"]),
 "C14-2": ("parentheses dropped for a different same-level operator on the right", ["C14", "C02"], "missed by C14, caught by C02 (140 labels)", "16 function witnesses whose value depends on the parentheses the saved text keeps", ["load/function-behaves-differently#none:func f(a,b){a - (b + 1)}/result-value (5 labels)"]),
 "C15-1": ("index expression continuation becomes an error in line mode", ["C15"], "caught", "", ["continuation/error-on-incomplete-input"]),
 "C15-2": ("macros not expanded in later chunks", ["C15"], "caught", "", ["incremental/error-only-when-split"]),
 "C16-1": ("(first batch)", ["C16"], "caught", "", ["literal-equals-span/number"]),
 "C16-2": ("(first batch)", ["C16"], "caught", "", ["interning/same-pointer"]),
 "C17-1": ("(first batch)", ["C17"], "caught", "", ["restricted/accepted-name-is-plain-gr", "restricted/created-file-has-plain-gr-name"]),
 "C17-2": ("(first batch)", ["C17"], "caught", "", ["restricted/accepted-name-is-plain-gr", "restricted/created-file-has-plain-gr-name"]),
 "C18-1": ("buffered writer flushed after the rename", ["C18"], "caught", "", ["autosave/state-file-neither-previous-nor-new"]),
 "C18-2": ("state file rewritten in place, cut to length at the end", ["C18"], "missed (os.OpenFile/Seek/Truncate were outside the file-system model: run vacuous)", "fs model: OpenFile with flags, Seek, Truncate, positional writes", ["autosave/state-file-neither-previous-nor-new"]),
 "C19-1": ("(first batch)", ["C19"], "caught", "", ["constant/value-unchanged"]),
 "C19-2": ("(first batch)", ["C19"], "caught", "", ["constant/value-unchanged"]),
 "C20-1": ("(first batch)", ["C20"], "caught", "", ["contains-iff-inserted", "prefix-query/result-count"]),
 "C20-2": ("(first batch)", ["C20"], "caught", "", ["prefix-query/longest-common-prefix-length", "go-panic:slice bounds out of range@autoCompleteCallback"]),
}
root = os.path.join(os.path.dirname(os.path.abspath(__file__)), "..", "seeded")
print("| seed | change | first run | strengthened | caught by (labels) |")
print("|---|---|---|---|---|")
for seed in sorted(R):
    desc, checks, first, strengthened, labels = R[seed]
    mp = os.path.join(root, seed, "meta.json")
    if os.path.exists(mp):
        m = json.load(open(mp))
        m["checks_run"] = ["./bin/gosym check %s (VERIF_REPO=<scratch worktree with patch.diff applied>, tools/seedtest.sh)" % c for c in checks]
        m["first_run"] = first
        m["strengthened"] = strengthened
        m["caught_by"] = labels
        if desc != "(first batch)":
            m["change"] = desc
        json.dump(m, open(mp, "w"), indent=1)
    else:
        print("MISSING", seed)
    if desc == "(first batch)":
        desc = open(os.path.join(root, seed, "agent_notes.md")).read().strip().split("\n")[0].lstrip("# ")[:90]
    print("| %s | %s | %s | %s | %s |" % (seed, desc.replace("|", "\\|"), first, strengthened or "-", "; ".join(labels).replace("|", "\\|")))
