#!/usr/bin/env python3
"""Records, per seeded change, which checks were run against it and what caught it; rewrites seeded/*/meta.json
and prints the markdown table used in DESIGN.md section 10.5. The data below is transcribed from the
tools/seedtest.sh logs of the runs named in each entry."""
import json, os
R = {
 # seed: (one-line description, [checks run], first run result, what was strengthened (or ""), final catching labels)
 "C01-1": ("<< reduces its count modulo 64", ["C01"], "caught", "", ["intop/<</count-of-64-or-more-gives-zero", "reference/printed-output"]),
 "C01-2": ("array + appends into the left operand's spare capacity", ["C01", "C06"], "missed by C01, caught by C06", "C01 W layer: three storage-sharing programs (two results from one left operand above the threshold; result built from a slice)", ["reference/final-value", "reference/printed-output", "C06 alias/large-container/other-binding-unchanged"]),
 "C01-3": ("a call returning a closure is memoized", ["C01"], "caught", "", ["reference/printed-output"]),
 "C02-1": ("call expression does not restore the precedence for what follows", ["C02"], "missed", "20 operand forms x 8 operator pairs on either side of a parenthesised lower-precedence operand", ["roundtrip/tree-changed#f(a) * (b + c) ... (50 labels)"]),
 "C02-2": ("compact separator before [ only for literal statements", ["C02"], "missed", "22 x 30 statement-pair skeletons with both separators", ["roundtrip/tree-changed#statement pair: <expression statement> then [b][0]|compact (3 labels)"]),
 "C03-1": ("stale previous node after a nested block ending in a block comment", ["C03"], "missed", "comment-at-block-edge (8 blocks x 11 bodies x 6 tails) and comment-between-statements families; these also exposed two base-tree defects (fixed: 5f6d51c, f11ece8)", ["fixpoint/second-format-differs#comment at a block edge: ... (35 labels)"]),
 "C03-2": ("process-wide small-integer node cache keyed by value", ["C03"], "missed", "VerifFormatHistory + vFresh: format after another input vs format in a fresh process (heap rollback under gosym, self re-exec natively); the solver finds b = 18 after a = 0x12", ["history/format-depends-on-earlier-parses|normal", "history/format-depends-on-earlier-parses|compact"]),
 "C04-1": ("(first batch)", ["C04"], "caught", "", ["memoization/printed-output"]),
 "C04-2": ("(first batch)", ["C04"], "caught", "", ["memoization/printed-output", "memoization/result-value"]),
 "C05-1": ("return out of a counted loop does not restore the loop variable", ["C05"], "caught (rebased on the current tree)", "", ["registers#for o=k2 {for a=k0 {if a==k1 {return a}; ...}} | println(a)/printed-output (3 labels)"]),
 "C05-2": ("(first batch)", ["C05"], "missed at first", "sessions with a callee writing a global from inside a counted loop", ["registers#got = -1 | func f(){for i = 5 {if i == k1 {got = i}}} | f() | got/result-value"]),
 "C06-1": ("(first batch)", ["C06"], "caught", "", ["alias/large-container/other-binding-unchanged", "alias/small-container/other-binding-unchanged"]),
 "C06-2": ("(first batch)", ["C06"], "caught", "", ["alias/large-container/other-binding-unchanged"]),
 "C07-1": ("(first batch)", ["C07"], "caught", "", ["go-panic:slice bounds out of range@(*eval.State).evalIndexRangeExpression"]),
 "C07-2": ("(first batch)", ["C07"], "caught", "", ["go-panic:index out of range@object.Cmp"]),
 "C08-1": ("number-literal failure returns nil without an error", ["C08"], "missed (ENGINE-MISMATCH: ParseFloat's verdict was a free boolean)", "strconv.ParseFloat on symbolic bytes: syntax now decided by strconv.special/readFloat executed from their SSA", ["total/tree-has-a-missing-child"]),
 "C08-2": ("block loop does not advance on ;", ["C08"], "missed (paths ran into the step bound: inconclusive)", "HangLabel: a path above 3M SSA steps is a non-termination candidate, confirmed when the native run does not finish in 20 s", ["total/does-not-terminate"]),
 "C09-1": ("repeat size wraps before the memory guard", ["C09"], "caught", "", ["guard/guarded-size-wrapped", "guard/result-size-overflows"]),
 "C09-2": ("context checked per loop iteration / call only, list loops forgotten", ["C09"], "missed (the cancellation clock was the number of context checks, which the change itself reduces)", "VerifCancelAtOutput: the output writer cancels the context after the k-th printed line", ["cancel-at-output/returns-an-error"]),
 "C10-1": ("(first batch)", ["C10"], "caught", "", ["session/later-input-prints-differently"]),
 "C10-2": ("caller's environment not restored when a call returns an error", ["C10"], "missed", "after every input the state must be back at the root scope, depth 0, writer in place; histories whose failing call has parameters named like globals; definitions between two failures", ["session/state-not-back-at-top-level/current-scope-is-not-the-root-scope"]),
 "C11-1": ("(first batch)", ["C11"], "caught", "", ["append/values"]),
 "C11-2": ("(first batch)", ["C11"], "caught", "", ["range/keys"]),
 "C12-1": ("(first batch)", ["C12"], "caught", "", ["cmp/transitive"]),
 "C12-2": ("(first batch)", ["C12"], "caught", "", ["cmp/antisymmetric", "cmp/equivalence-transitive", "cmp/transitive"]),
 "C13-1": ("array-literal template altered by its first use", ["C13"], "caught", "", ["macro/definition-altered-by-use"]),
 "C13-2": ("a macro defined right after another one is lost", ["C13"], "missed (the harness skipped a run whose macro was not registered)", "a listed macro that is not registered is a violation; job with four adjacent definitions", ["macro/definition-not-registered"]),
 "C14-1": ("\\xNN decoded as a rune", ["C14"], "caught", "", ["load/value-changed#str1:x = s (3 labels)"]),
 "C14-2": ("parentheses dropped for a different same-level operator on the right", ["C14", "C02"], "missed by C14, caught by C02 (140 labels)", "16 function witnesses whose value depends on the parentheses the saved text keeps", ["load/function-behaves-differently#none:func f(a,b){a - (b + 1)}/result-value (5 labels)"]),
 "C15-1": ("index expression continuation becomes an error in line mode", ["C15"], "caught", "", ["continuation/error-on-incomplete-input"]),
 "C15-2": ("macros not expanded in later chunks", ["C15"], "caught", "", ["incremental/error-only-when-split"]),
 "C16-1": ("(first batch)", ["C16"], "caught", "", ["literal-equals-span/number"]),
 "C16-2": ("(first batch)", ["C16"], "caught", "", ["interning/same-pointer"]),
 "C17-1": ("(first batch)", ["C17"], "caught", "", ["restricted/accepted-name-is-plain-gr", "restricted/created-file-has-plain-gr-name"]),
 "C17-2": ("(first batch)", ["C17"], "caught", "", ["restricted/accepted-name-is-plain-gr", "restricted/created-file-has-plain-gr-name"]),
 "C18-1": ("buffered writer flushed after the rename", ["C18"], "caught", "", ["autosave/state-file-neither-previous-nor-new"]),
 "C18-2": ("state file rewritten in place, cut to length at the end", ["C18"], "missed (os.OpenFile/Seek/Truncate were outside the file-system model: run vacuous)", "fs model: OpenFile with flags, Seek, Truncate, positional writes", ["autosave/state-file-neither-previous-nor-new"]),
 "C19-1": ("(first batch)", ["C19"], "caught", "", ["constant/value-unchanged"]),
 "C19-2": ("(first batch)", ["C19"], "caught", "", ["constant/value-unchanged"]),
 "C20-1": ("(first batch)", ["C20"], "caught", "", ["contains-iff-inserted", "prefix-query/result-count"]),
 "C20-2": ("(first batch)", ["C20"], "caught", "", ["prefix-query/longest-common-prefix-length", "go-panic:slice bounds out of range@autoCompleteCallback"]),

 # ---- fifth batch: holdout (run once against the checks as they stood; "first run" is that result) ----
 "C02-5": ("\\x escape decoded as a rune (same idea as C03-3, found independently)", ["C02"], "caught", "", ["roundtrip/tree-changed#s = \"@\"|normal (4 labels)"]),
 "C02-6": ("number before a dot parenthesised for integer literals only ((08).a, ints above MaxInt64 are float literals)", ["C02"], "missed", "number-before-dot skeletons with float-by-fallback spellings", ["roundtrip/printed-form-does-not-parse#f((99999999999999999999).k, 1)|normal"]),
 "C04-5": ("cache key keeps only the first four arguments", ["C04"], "missed", "sessions varying the fifth / sixth argument and variadic extras", ["memoization/printed-output", "memoization/result-value"]),
 "C04-6": ("del marks the call uncacheable only when it removed something", ["C04"], "missed", "sessions deleting a name that is unbound at the first call", ["memoization/result-value"]),
 "C05-5": ("an outer variable assigned from a bare register keeps the register", ["C05"], "caught", "", ["registers#got = -1 | func f(){for i = 5 {if i == k1 {got = i}}} | f() | got/result-value"]),
 "C05-6": ("Equals only unwraps a register on its left operand", ["C05"], "missed", "sessions comparing two registers / a literal with a register on the right", ["registers#func f(n, m){[n == m, n != m, n == 3, 3 == n, m == n + 0]} | f(a, b) | f(3, 3)/result-value"]),
 "C06-5": ("map + shares the left operand's storage through slices.Grow", ["C06"], "missed", "skeletons added (left operand with spare capacity, partial views): the executor finds the aliasing but its counterexample does not reproduce natively (ENGINE-MISMATCH: capacity of the grown slice differs) - still not caught", []),
 "C06-6": ("CopyMap decides by size instead of representation", ["C06"], "missed", "maps in the large representation holding few entries (shrunk by del, literal with repeated keys)", ["alias/large-container/other-binding-unchanged", "alias/small-container/other-binding-unchanged"]),
 "C07-5": ("a counted loop ending in an error returns without releasing its register", ["C07"], "missed", "loops inside loops whose error is swallowed by catch / log", ["go-panic:Releasing non last register i@(*object.Environment).ReleaseRegister"]),
 "C07-6": ("lambda printing indexes the comment-filtered statement list", ["C07"], "missed", "function bodies that are only comments", ["go-panic:index out of range@(object.Function).lambdaPrint"]),
 "C10-5": ("error results are memoized (a deadline error is replayed later)", ["C10"], "missed", "not caught: deadlines are outside the model (context.WithTimeout is stubbed); the second symptom is in the text of error stacks, which the check does not compare", []),
 "C10-6": ("macro nesting counter leaks on the nesting-limit error", ["C10"], "not run: the patch no longer applies after repair cce0688 (which fixed the same counter for panics)", "", []),
 "C15-5": ("a bare return at the end of a line-mode input asks for a continuation", ["C15"], "missed", "complete programs must be accepted as they are in line mode; programs ending in return / break / continue", ["modes/complete-program-not-accepted-in-line-mode"]),
 "C15-6": ("stale-cache check once per top-level evaluation instead of per call", ["C15"], "missed", "scripts redefining a function between two memoized calls", ["incremental/printed-output-differs"]),
 "C19-5": (":= / parameter check walks the call stack instead of the lexical chain", ["C19"], "missed", "VerifConstProgram: constants bound inside functions and captured by closures called after the function returned", ["constant/local-value-unchanged"]),
 "C19-6": ("first binding inside a function stores the register, not its value", ["C19"], "missed", "VerifConstProgram: constants bound from a parameter that changes afterwards (also a C05 session)", ["constant/local-value-unchanged"]),

 # ---- third and fourth batches (agents asked to avoid the obvious and to report defects of the unchanged tree) ----
 "C01-4": ("the function's own name is looked up before its parameters and locals", ["C01"], "missed", "W programs with a local / parameter named like the function", ["reference/error-outcome", "reference/printed-output"]),
 "C01-5": ("the value of a counted loop is copied out of the register once, after the loop", ["C01"], "missed", "W programs observing the value of a loop whose later iterations continue / break", ["reference/printed-output"]),
 "C02-3": ("compact separator: glue check before the ;-rule (a--; -b prints a-- -b)", ["C02"], "caught (statement-pair family)", "", ["roundtrip/tree-changed#statement pair: <expression statement> then -b|compact (2 labels)"]),
 "C02-4": ("a newline ends a bare return (printer not updated)", ["C02"], "missed", "bare return / break / continue and postfix statements as the first statement of the pair family", ["roundtrip/printed-form-does-not-parse#statement pair: ... (30 labels)"]),
 "C03-3": ("\\x escape decoded as a rune (strings with raw non-UTF-8 bytes)", ["C03"], "missed (the printed form of a symbolic string was an opaque atom: paths inconclusive)", "string-content skeletons run with strconv.Quote executed byte by byte (no atoms)", ["fixpoint/second-format-differs#s = \"@\"|normal (4 labels)"]),
 "C03-4": ("m.\"key\" printed as m.key when the key looks like a name (keywords forgotten)", ["C03"], "missed", "quoted dot keys spelling every keyword and builtin", ["fixpoint/second-format-differs#m.\"break\" = 1|normal (many labels)"]),
 "C03-5": ("return; accepted by the parser", ["C03"], "caught", "", ["fixpoint/second-format-differs#statement pair: ... (29 labels)"]),
 "C04-3": ("function-generation check only at the outermost call", ["C04"], "caught", "", ["memoization/printed-output", "memoization/result-value"]),
 "C04-4": ("never-memoized result kinds checked before the get-miss propagation (rebased on the repaired tree)", ["C04"], "caught (sessions added in the same round, from the agent's reading of the base tree)", "", ["memoization/result-type", "memoization/result-value"]),
 "C05-3": ("loop variable written back from the Go counter instead of the register", ["C05"], "caught (sessions added in the same round)", "", ["registers#for i = 3 {i = i * 10} | i/result-value (3 labels)"]),
 "C05-4": ("statement x++ rewritten to ++x on the register", ["C05"], "caught (sessions added in the same round)", "", ["registers#for i = 3 {i++}/result-value (4 labels)"]),
 "C06-3": ("append fast path for a new largest key in map index assignment", ["C06"], "caught (skeletons added in the same round)", "", ["alias/large-container/other-binding-unchanged"]),
 "C06-4": ("map literal values evaluated without dereferencing", ["C06"], "caught (skeletons added in the same round)", "", ["alias/large-container/other-binding-unchanged", "alias/small-container/other-binding-unchanged"]),
 "C07-3": ("register availability decided once per call", ["C07"], "caught", "", ["go-panic:No more registers available for k@(*object.Environment).MakeRegister"]),
 "C07-4": ("Hashable no longer looks at the keys of small maps", ["C07"], "missed, then ENGINE-MISMATCH (the runtime reports 'hash of unhashable', the executor's map model 'comparing uncomparable')", "containers of every kind as arguments of user functions; the two panic classes are one for replay", ["go-panic:comparing uncomparable@(eval.Cache).Get"]),
 "C08-3": ("error line excerpt for long lines (negative repeat count)", ["C08"], "missed (needs a line longer than 200 bytes)", "7 long-line skeletons with one arbitrary byte", ["go-panic:strings: negative Repeat count@strings.Repeat"]),
 "C08-4": ("index depth counter instead of the bracket-kind stack", ["C08"], "caught", "", ["total/tree-has-a-missing-child"]),
 "C09-3": ("context polled every 256 evaluated nodes", ["C09"], "check killed (the executor ran out of memory on a runaway path)", "per-path undo-log bound and a memory watchdog that keeps what was found; caught by the output-clocked cancellation harness", ["cancel-at-output/returns-an-error"]),
 "C09-4": ("depth limit enforced in applyFunction only", ["C09"], "missed", "5 programs recursing through the eval extension (extensions-package harness, non-termination label)", ["depth/recursion-not-stopped-by-the-depth-limit"]),
 "C10-3": ("a loop that fails with an error keeps its register", ["C10"], "caught (invariant added in the same round)", "", ["session/state-not-back-at-top-level/root-scope-still-holds-registers"]),
 "C10-4": ("Reset() after a recovered panic also drops the memoization cache", ["C10"], "missed", "histories with log() inside a memoized function (log lines are not replayed on a cache hit)", ["session/later-input-prints-differently"]),
 "C11-3": ("Cmp returns the length difference for arrays and maps", ["C11"], "missed", "container keys of 0..3 elements", ["append/equals-rebuilt", "delete/equals-rebuilt", "rest/equals-rebuilt"]),
 "C11-4": ("del() of a map entry tests presence through the lookup helper (nil values)", ["C11"], "missed, then not reached (budget cut the run before the new jobs)", "language-level map programs with nil / zero / false / empty values; cheap jobs first; larger budget", ["mapeval/del-reports-presence/result-value"]),
 "C12-3": ("small-map fast path in Cmp orders maps differently from the generic path", ["C12"], "missed", "two-pair maps in both representations, every arrangement of a triple", ["cmp/transitive"]),
 "C12-4": ("identical-key shortcut in map comparison panics on uncomparable keys", ["C12"], "missed", "maps keyed by functions, large arrays, arrays of functions", ["go-panic:comparing uncomparable@object.Cmp"]),
 "C13-3": ("a macro closes over the session environment", ["C13"], "moot: after repair f2641ff (parameters bound for the expansion only) the change no longer breaks the property (its demonstration passes)", "", []),
 "C13-4": ("macro argument count check only rejects too few arguments", ["C13"], "missed", "calls with too many / too few arguments against the error the expansion must produce", ["macro/expansion-differs-from-hand-substitution"]),
 "C14-3": ("compact printer drops the separator before a statement starting with [", ["C14"], "caught", "", ["load/line-does-not-evaluate#none:func f(a){...; [a, {a:a}, \"s\"][0]}"]),
 "C14-4": ("AutoLoad sizes its line buffer from MaxValueLen", ["C14", "C18"], "missed (the auto-save / auto-load path with a value-length limit was not exercised)", "VerifAutoSaveLong in the C18 check: named functions beyond the limit, strings under it", ["C18 long/auto-load-restores-something-else"]),
 "C15-3": ("raw-string fast path forgets to consume an unterminated raw string", ["C15"], "missed", "programs with raw strings holding text that is not code", ["continuation/error-on-incomplete-input"]),
 "C15-4": ("DefineMacros skips the statement after a macro definition (slices.Delete)", ["C15"], "missed twice: the whole-script run erroring was taken as outside the property; then slices.Delete's clear() was unsupported by the executor", "errors in exactly one of the two runs are violations; clear on slices", ["incremental/error-only-in-one-go"]),
 "C16-3": ("whitespace test replaced by unicode.IsSpace", ["C16"], "caught", "", ["had-whitespace-flag", "blockcomment/starts", "end-marker-before-end-of-input (9 labels)"]),
 "C16-4": ("literals longer than 128 bytes are no longer interned", ["C16"], "missed (beyond the byte bound)", "long-token jobs: 15..1025 bytes around every power of two, one arbitrary byte", ["long/interning-same-pointer"]),
 "C17-3": ("load() falls back to the directory of the running script", ["C17"], "missed", "the same jobs with the program running as the script sub/main.gr; the solver finds the name x of the bait sub/x.gr", ["restricted/load-read-a-foreign-file"]),
 "C17-4": ("save() through a temp file that leaks when the rename fails", ["C17"], "missed", "a directory named like an allowed file among the baits; directories in the fs model", ["restricted/created-file-has-plain-gr-name"]),
 "C18-3": ("fixed temporary file name, opened without truncation", ["C18"], "caught (history harness added in the same round)", "", ["history/completed-save-is-not-the-new-state", "autosave/other-file-touched"]),
 "C18-4": ("previous state file removed just before the rename", ["C18"], "caught (history harness: temp file vanishes before the rename)", "", ["history/failed-save-removed-the-state-file"]),
 "C19-3": ("CopyMap decides from the map's length instead of its representation", ["C19"], "missed", "constants that are large-representation maps with few entries", ["constant/value-unchanged"]),
 "C19-4": ("Constant() accepts _ only in the middle", ["C19"], "missed", "other spellings of a constant name (K_, MAX_, A_B_, K9, K__, K_1, X)", ["constant/value-unchanged"]),
 "C20-3": ("trie.Insert marks the node it ended on after the loop (empty word becomes a member)", ["C20"], "caught", "", ["contains-iff-inserted", "completion/result-is-prefix-of-a-defined-word"]),
 "C20-4": ("identifiers recorded for completion before the assignment is validated", ["C20"], "missed", "VerifCompletionIds: 10 interpreter sessions, a probed name is offered exactly when bound, variables never as calls", ["registration/variable-offered-as-a-call"]),
}
root = os.path.join(os.path.dirname(os.path.abspath(__file__)), "..", "seeded")
print("| seed | change | first run | strengthened | caught by (labels) |")
print("|---|---|---|---|---|")
for seed in sorted(R):
    desc, checks, first, strengthened, labels = R[seed]
    mp = os.path.join(root, seed, "meta.json")
    if os.path.exists(mp):
        m = json.load(open(mp))
        m["checks_run"] = ["./bin/gosym check %s (VERIF_REPO=<scratch worktree with patch.diff applied>, tools/seedtest.sh)" % c for c in checks]
        m["first_run"] = first
        m["strengthened"] = strengthened
        m["caught_by"] = labels
        if desc != "(first batch)":
            m["change"] = desc
        json.dump(m, open(mp, "w"), indent=1)
    else:
        print("MISSING", seed)
    if desc == "(first batch)":
        desc = open(os.path.join(root, seed, "agent_notes.md")).read().strip().split("\n")[0].lstrip("# ")[:90]
    print("| %s | %s | %s | %s | %s |" % (seed, desc.replace("|", "\\|"), first, strengthened or "-", "; ".join(labels).replace("|", "\\|")))
