//go:build verif

package repl

import (
	"strings"

	"fortio.org/terminal"
)

func init() {
	verifHarness["VerifCompletion"] = VerifCompletion
}

func verifAtoi(s string) int {
	n := 0
	for _, c := range s {
		n = n*10 + int(c-'0')
	}
	return n
}

func verifWord(tag string, maxLen int, alphabet []byte) string {
	n := vRange(tag+"_len", 0, maxLen)
	b := make([]byte, n)
	for i := range b {
		c := vByte(tag)
		ok := false
		for _, a := range alphabet {
			ok = ok || c == a
		}
		vAssume(ok)
		b[i] = c
	}
	return string(b)
}

func verifHasPrefix(s, p string) bool { return len(s) >= len(p) && s[:len(p)] == p }

// VerifCompletion: tab completion only extends the typed text to something that was defined.
// args: k words, maxLen, maxTyped
func VerifCompletion(args []string) {
	k, maxLen, maxQ := verifAtoi(args[0]), verifAtoi(args[1]), verifAtoi(args[2])
	alphabet := []byte{'a', 'b'}
	a := NewCompletion()
	var words []string
	for i := 0; i < k; i++ {
		w := verifWord("w", maxLen, alphabet)
		a.Trie.Insert(w)
		if w != "" {
			words = append(words, w)
		}
	}
	typed := verifWord("typed", maxQ, alphabet)
	out := &strings.Builder{}
	t := &terminal.Terminal{Out: out}
	newLine, newPos, ok := a.autoCompleteCallback(t, typed, len(typed))
	if !ok {
		for _, w := range words {
			vAssert(!verifHasPrefix(w, typed), "completion/offered-when-a-word-matches")
		}
		return
	}
	vReach("completion offered")
	vAssert(newPos == len(newLine), "completion/cursor-at-end")
	vAssert(verifHasPrefix(newLine, typed), "completion/extends-typed-text")
	found := false
	for _, w := range words {
		if verifHasPrefix(w, newLine) {
			found = true
		}
	}
	vAssert(found, "completion/result-is-prefix-of-a-defined-word")
}
