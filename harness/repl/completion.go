//go:build verif

package repl

import (
	"context"
	"strings"

	"fortio.org/terminal"
	"grol.io/grol/eval"
)

func init() {
	verifHarness["VerifCompletion"] = VerifCompletion
}

func verifAtoi(s string) int {
	n := 0
	for _, c := range s {
		n = n*10 + int(c-'0')
	}
	return n
}

func verifWord(tag string, maxLen int, alphabet []byte) string {
	n := vRange(tag+"_len", 0, maxLen)
	b := make([]byte, n)
	for i := range b {
		c := vByte(tag)
		ok := false
		for _, a := range alphabet {
			ok = ok || c == a
		}
		vAssume(ok)
		b[i] = c
	}
	return string(b)
}

func verifHasPrefix(s, p string) bool { return len(s) >= len(p) && s[:len(p)] == p }

// VerifCompletion: tab completion only extends the typed text to something that was defined.
// args: k words, maxLen, maxTyped
func VerifCompletion(args []string) {
	k, maxLen, maxQ := verifAtoi(args[0]), verifAtoi(args[1]), verifAtoi(args[2])
	alphabet := []byte{'a', 'b'}
	a := NewCompletion()
	var words []string
	for i := 0; i < k; i++ {
		w := verifWord("w", maxLen, alphabet)
		a.Trie.Insert(w)
		if w != "" {
			words = append(words, w)
		}
	}
	line := verifWord("typed", maxQ, alphabet)
	// the cursor is anywhere in the line: what is before it is completed, what is after it stays
	pos := vRange("cursor", 0, len(line))
	typed, tail := line[:pos], line[pos:]
	out := &strings.Builder{}
	t := &terminal.Terminal{Out: out}
	newLine, newPos, ok := a.autoCompleteCallback(t, line, pos)
	if !ok {
		for _, w := range words {
			vAssert(!verifHasPrefix(w, typed), "completion/offered-when-a-word-matches")
		}
		return
	}
	vReach("completion offered")
	if tail != "" {
		vReach("completion with text after the cursor")
	}
	vAssert(newPos >= 0 && newPos <= len(newLine), "completion/cursor-inside-the-line")
	if newPos < 0 || newPos > len(newLine) {
		return
	}
	vAssert(newLine[newPos:] == tail, "completion/text-after-the-cursor-kept")
	completed := newLine[:newPos]
	vAssert(verifHasPrefix(completed, typed), "completion/extends-typed-text")
	found := false
	for _, w := range words {
		if verifHasPrefix(w, completed) {
			found = true
		}
	}
	vAssert(found, "completion/result-is-prefix-of-a-defined-word")
}

func init() {
	verifHarness["VerifCompletionIds"] = VerifCompletionIds
}

// VerifCompletionIds: what the interpreter registers for completion is what is defined: after a session, name,
// "name " (variables) or "name(" (functions) complete for every global the session defined, and for nothing a
// rejected assignment tried to bind. args: probe names (comma separated), inputs...
func VerifCompletionIds(args []string) {
	probes := strings.Split(args[0], ",")
	s := eval.NewState()
	sb := &strings.Builder{}
	s.Out, s.LogOut, s.NoLog = sb, sb, true
	s.MaxDepth = 60
	c := NewCompletion()
	s.RegisterTrie(c.Trie)
	eval.VerifBindInt(s, "a", vInt64("a"))
	opts := Options{All: true, ShowEval: true, NoColor: true}
	for _, in := range args[1:] {
		_, _, _, _ = EvalOne(context.Background(), s, in, sb, opts)
	}
	globals := eval.VerifGlobalKinds(s)
	for _, name := range probes {
		kind, defined := globals[name]
		_, all := c.Trie.PrefixAll(name)
		has := func(w string) bool {
			for _, x := range all {
				if x == w {
					return true
				}
			}
			return false
		}
		if defined {
			vReach("defined name probed")
			vAssert(has(name), "registration/defined-name-missing")
			if kind == "func" {
				vAssert(has(name+"("), "registration/function-not-offered-as-a-call")
				vAssert(!has(name+" "), "registration/function-offered-as-a-variable")
			} else {
				vAssert(has(name+" "), "registration/variable-not-offered")
				vAssert(!has(name+"("), "registration/variable-offered-as-a-call")
			}
		} else {
			vReach("undefined name probed")
			vAssert(!has(name) && !has(name+" ") && !has(name+"("), "registration/never-defined-name-offered")
		}
	}
}
