//go:build verif

package repl

import (
	"context"
	"strings"

	"grol.io/grol/eval"
)

func init() {
	verifHarness["VerifSession"] = VerifSession
}

type verifStep struct {
	out      string
	errs     int
	panicked bool
}

func verifRunHistory(inputs []string, skip []bool, a, b int64) []verifStep {
	s := eval.NewState()
	out := &strings.Builder{}
	s.Out = out
	s.LogOut = out
	s.NoLog = true
	s.MaxDepth = 40
	opts := Options{All: true, ShowEval: true, NoColor: true}
	// bind the symbolic values through the public path: a and b are set by evaluating literals built from them
	// is not possible for symbolic values, so a tiny in-package helper of the eval harness does it.
	eval.VerifBindInt(s, "a", a)
	eval.VerifBindInt(s, "b", b)
	res := make([]verifStep, len(inputs))
	for i, in := range inputs {
		if skip[i] {
			continue
		}
		out.Reset()
		_, panicked, errs, _ := EvalOne(context.Background(), s, in, out, opts)
		res[i] = verifStep{out: out.String(), errs: len(errs), panicked: panicked}
		if why := eval.VerifAtTopLevel(s, out); why != "" {
			vAssert(false, "session/state-not-back-at-top-level/"+why)
		}
	}
	return res
}

// VerifSession: a failing, side-effect-free input leaves no trace: the later inputs behave exactly as if it had
// never been submitted. args: inputs; an input prefixed with "!" is a failing one (it is left out of the
// reference run).
func VerifSession(args []string) {
	a, b := vInt64("a"), vInt64("b")
	inputs := make([]string, len(args))
	failing := make([]bool, len(args))
	none := make([]bool, len(args))
	for i, in := range args {
		if strings.HasPrefix(in, "!") {
			failing[i] = true
			in = in[1:]
		}
		inputs[i] = in
	}
	with := verifRunHistory(inputs, none, a, b)
	without := verifRunHistory(inputs, failing, a, b)
	for i := range inputs {
		if failing[i] {
			if with[i].errs > 0 || with[i].panicked {
				vReach("failing input failed")
				if with[i].panicked {
					vReach("failing input panicked")
				}
			} else {
				// the input happened to succeed for these values: then it may have had effects; not our case
				vReach("failing input succeeded for these values")
				return
			}
			continue
		}
		vAssert(with[i].panicked == without[i].panicked, "session/later-input-panics-differently")
		vAssert(with[i].errs == without[i].errs, "session/later-input-errors-differently")
		vAssert(with[i].out == without[i].out, "session/later-input-prints-differently")
	}
}

func init() {
	verifHarness["VerifIncremental"] = VerifIncremental
}

func verifFeed(chunks []string, a, b int64) (string, string, int) {
	nerr := 0
	s := eval.NewState()
	out := &strings.Builder{}  // what the program prints
	echo := &strings.Builder{} // the REPL's echo of each chunk's value: not program output
	s.Out = out
	s.LogOut = out
	s.NoLog = true
	s.MaxDepth = 60
	eval.VerifBindInt(s, "a", a)
	eval.VerifBindInt(s, "b", b)
	opts := Options{All: true, ShowEval: true, NoColor: true}
	for _, c := range chunks {
		_, panicked, errs, _ := EvalOne(context.Background(), s, c, echo, opts)
		nerr += len(errs)
		if panicked {
			nerr++
		}
	}
	g := &strings.Builder{}
	_, _ = s.SaveGlobals(g)
	return out.String(), g.String(), nerr
}

// VerifIncremental: feeding the top-level statements of a script in consecutive chunks to one persistent
// session prints the same and leaves the same globals as evaluating the script in one go. args: statements...
func VerifIncremental(args []string) {
	a, b := vInt64("a"), vInt64("b")
	whole := strings.Join(args, "\n")
	var chunks []string
	cur := args[0]
	for _, st := range args[1:] {
		if vRange("split", 0, 1) == 1 {
			chunks = append(chunks, cur)
			cur = st
		} else {
			cur = cur + "\n" + st
		}
	}
	chunks = append(chunks, cur)
	if len(chunks) > 1 {
		vReach("script split")
	}
	o1, g1, e1 := verifFeed([]string{whole}, a, b)
	o2, g2, e2 := verifFeed(chunks, a, b)
	if e1 > 0 && e2 > 0 {
		vReach("script not error-free for these values (outside the property)")
		return
	}
	vAssert(e1 == 0, "incremental/error-only-in-one-go")
	vAssert(e2 == 0, "incremental/error-only-when-split")
	if e1 > 0 || e2 > 0 {
		return
	}
	vAssert(o1 == o2, "incremental/printed-output-differs")
	vAssert(g1 == g2, "incremental/final-globals-differ")
}
