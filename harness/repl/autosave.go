//go:build verif

package repl

import (
	"context"
	"os"
	"strings"

	"grol.io/grol/eval"
	"grol.io/grol/object"
)

func init() {
	verifHarness["VerifAutoSave"] = VerifAutoSave
}

const verifKilled = "verif: process killed"

// verifStateWith evaluates the inputs in a fresh state (values a, b symbolic).
func verifStateWith(inputs []string, a, b int64) *eval.State {
	s := eval.NewState()
	out := &strings.Builder{}
	s.Out, s.LogOut, s.NoLog = out, out, true
	eval.VerifBindInt(s, "a", a)
	eval.VerifBindInt(s, "b", b)
	opts := Options{All: true, ShowEval: true, NoColor: true}
	for _, in := range inputs {
		_, _, _, _ = EvalOne(context.Background(), s, in, out, opts)
	}
	return s
}

func verifSaved(s *eval.State) string {
	g := &strings.Builder{}
	_, _ = s.SaveGlobals(g)
	return g.String()
}

// verifCrashRun runs AutoSave and "kills the process" at the k-th crash point (k<0: never). Returns whether
// it was killed and the error AutoSave returned otherwise.
func verifCrashRun(s *eval.State, opts Options, k int) (killed bool, err error) {
	n := 0
	hook := func(string) {
		if n == k {
			panic(verifKilled)
		}
		n++
	}
	VerifCrashHook, object.VerifCrashHook = hook, hook
	defer func() {
		VerifCrashHook, object.VerifCrashHook = nil, nil
		if r := recover(); r != nil {
			if msg, ok := r.(string); ok && msg == verifKilled {
				killed = true
				return
			}
			panic(r)
		}
	}()
	err = AutoSave(s, opts)
	return
}

// VerifAutoSave: whatever the instant the process dies during auto-save, ./.gr is the complete previous or
// the complete new file and auto-load restores that state. args: previous-state inputs | new-state inputs (two
// lists separated by "--"), maxCrashPoints
func VerifAutoSave(args []string) {
	var prevIn, newIn []string
	maxK := 0
	cur := &prevIn
	for i, a := range args {
		if i == len(args)-1 {
			maxK = verifAtoi(a)
			break
		}
		if a == "--" {
			cur = &newIn
			continue
		}
		*cur = append(*cur, a)
	}
	// the values are immaterial to atomicity: the variable here is the crash point
	a, b := int64(vRange("a", 6, 7)), int64(-3)
	vFSEnable()
	opts := Options{AutoSave: true, AutoLoad: true}
	// previous session: saved without incident
	sPrev := verifStateWith(prevIn, a, b)
	prevText := verifSaved(sPrev)
	hadPrev := len(prevIn) > 0
	if hadPrev {
		killed, err := verifCrashRun(sPrev, opts, -1)
		vAssert(!killed && err == nil, "autosave/crash-free-save-failed")
		got, ok := vFSContent(AutoSaveFile)
		vAssert(ok && got == prevText, "autosave/crash-free-save-wrote-something-else")
	}
	// new session: starts from the previous state (auto-load) and adds to it, then dies at crash point k
	sNew := verifStateWith(nil, a, b)
	_ = AutoLoad(sNew, opts)
	optsEval := Options{All: true, ShowEval: true, NoColor: true}
	out := &strings.Builder{}
	for _, in := range newIn {
		_, _, _, _ = EvalOne(context.Background(), sNew, in, out, optsEval)
	}
	newText := verifSaved(sNew)
	k := vRange("crashpoint", -1, maxK)
	killed, err := verifCrashRun(sNew, opts, k)
	if killed {
		vReach("killed during auto-save")
	} else {
		vReach("auto-save completed")
		vAssert(err == nil, "autosave/returned-error")
	}
	got, ok := vFSContent(AutoSaveFile)
	if !ok {
		vAssert(!hadPrev, "autosave/state-file-vanished")
		vAssert(killed, "autosave/completed-but-no-state-file")
	} else {
		isPrev := hadPrev && got == prevText
		isNew := got == newText
		vAssert(isPrev || isNew, "autosave/state-file-neither-previous-nor-new")
		if !killed {
			vAssert(isNew, "autosave/completed-but-old-state-on-disk")
		}
		// the next session restores one of the two states
		sNext := verifStateWith(nil, a, b)
		_ = AutoLoad(sNext, opts)
		restored := verifSaved(sNext)
		vAssert((hadPrev && restored == prevText) || restored == newText, "autosave/auto-load-restores-neither-state")
	}
	// nothing but ./.gr and ./.grol*.tmp is touched
	for _, p := range vFSList() {
		okName := p == AutoSaveFile || (strings.HasPrefix(p, ".grol") && strings.HasSuffix(p, ".tmp"))
		vAssert(okName, "autosave/other-file-touched")
	}
	// no save when nothing changed since the last one
	if !killed {
		before := len(vFSList())
		c1, _ := vFSContent(AutoSaveFile)
		killed2, err2 := verifCrashRun(sNew, opts, 0)
		vAssert(!killed2 && err2 == nil, "autosave/saves-again-although-nothing-changed")
		c2, _ := vFSContent(AutoSaveFile)
		vAssert(c1 == c2 && len(vFSList()) == before, "autosave/saves-again-although-nothing-changed")
	}
}

func init() {
	verifHarness["VerifAutoSaveHistory"] = VerifAutoSaveHistory
}

// verifHookRun runs AutoSave with a hook: killed at the k-th crash point (k<0: never); act (if not nil) runs when
// the crash point named at is reached.
func verifHookRun(s *eval.State, opts Options, k int, at string, act func()) (killed bool, err error) {
	n := 0
	hook := func(label string) {
		if n == k {
			panic(verifKilled)
		}
		n++
		if act != nil && label == at {
			act()
		}
	}
	VerifCrashHook, object.VerifCrashHook = hook, hook
	defer func() {
		VerifCrashHook, object.VerifCrashHook = nil, nil
		if r := recover(); r != nil {
			if msg, ok := r.(string); ok && msg == verifKilled {
				killed = true
				return
			}
			panic(r)
		}
	}()
	err = AutoSave(s, opts)
	return
}

func verifSession(inputs []string, a, b int64, opts Options) *eval.State {
	s := verifStateWith(nil, a, b)
	_ = AutoLoad(s, opts)
	optsEval := Options{All: true, ShowEval: true, NoColor: true}
	out := &strings.Builder{}
	for _, in := range inputs {
		_, _, _, _ = EvalOne(context.Background(), s, in, out, optsEval)
	}
	return s
}

// VerifAutoSaveHistory: histories of saves. A first session saves without incident; a second one (which made the
// state larger) dies at an arbitrary crash point of its save, possibly leaving a temporary file behind; a third one
// starts from what is on disk, makes the state smaller and saves - either without incident (the file is then
// exactly its state, whatever was left behind), or with its temporary file vanishing before the rename (a failed
// save: the file on disk must still be the complete file it started from).
// args: first-session inputs -- second-session inputs -- third-session inputs, maxCrashPoints, mode(plain|renamefails)
func VerifAutoSaveHistory(args []string) {
	var parts [3][]string
	pi := 0
	for _, a := range args[:len(args)-2] {
		if a == "--" {
			pi++
			continue
		}
		parts[pi] = append(parts[pi], a)
	}
	maxK, mode := verifAtoi(args[len(args)-2]), args[len(args)-1]
	a, b := int64(vRange("a", 6, 7)), int64(-3)
	vFSEnable()
	opts := Options{AutoSave: true, AutoLoad: true}
	s1 := verifSession(parts[0], a, b, opts)
	killed, err := verifHookRun(s1, opts, -1, "", nil)
	vAssert(!killed && err == nil, "history/crash-free-save-failed")
	s2 := verifSession(parts[1], a, b, opts)
	k := vRange("crashpoint", 0, maxK)
	killed, _ = verifHookRun(s2, opts, k, "", nil)
	if killed {
		vReach("second save killed")
	}
	onDisk, ok := vFSContent(AutoSaveFile)
	vAssert(ok, "history/state-file-vanished")
	s3 := verifSession(parts[2], a, b, opts)
	want := verifSaved(s3)
	if mode == "renamefails" {
		_, err = verifHookRun(s3, opts, -1, "after-write", func() {
			for _, p := range vFSList() {
				if strings.HasSuffix(p, ".tmp") {
					_ = os.Remove(p)
				}
			}
		})
		vReach("save with a vanished temporary file")
		got, ok := vFSContent(AutoSaveFile)
		vAssert(ok, "history/failed-save-removed-the-state-file")
		if ok {
			vAssert(got == onDisk || (err == nil && got == want), "history/failed-save-damaged-the-state-file")
		}
		return
	}
	killed, err = verifHookRun(s3, opts, -1, "", nil)
	vAssert(!killed && err == nil, "history/third-save-failed")
	vReach("third save completed")
	got, ok := vFSContent(AutoSaveFile)
	vAssert(ok && got == want, "history/completed-save-is-not-the-new-state")
	s4 := verifSession(nil, a, b, opts)
	vAssert(verifSaved(s4) == want, "history/auto-load-after-completed-save-restores-something-else")
}

func init() {
	verifHarness["VerifAutoSaveLong"] = VerifAutoSaveLong
}

// VerifAutoSaveLong: what auto-save writes auto-load reads back, also when lines are long: a named function longer
// than the value-length limit (functions are saved whatever their length), long strings under the limit, bindings
// that sort after them. args: value-length limit, length of the long function body, length of the long string
func VerifAutoSaveLong(args []string) {
	limit, fnLen, strLen := verifAtoi(args[0]), verifAtoi(args[1]), verifAtoi(args[2])
	a, b := int64(vRange("a", 6, 7)), int64(-3)
	vFSEnable()
	opts := Options{AutoSave: true, AutoLoad: true, MaxValueLen: limit}
	body := "n"
	for len(body) < fnLen {
		body += " + 1"
	}
	inputs := []string{"a1 = a", "func longfn(n) {" + body + "}", "m1 = \"" + strings.Repeat("s", strLen) + "\"", "z9 = [b, 2]"}
	s1 := verifStateWith(nil, a, b)
	s1.MaxValueLen = limit
	out := &strings.Builder{}
	for _, in := range inputs {
		_, _, _, _ = EvalOne(context.Background(), s1, in, out, Options{All: true, ShowEval: true, NoColor: true})
	}
	killed, err := verifHookRun(s1, opts, -1, "", nil)
	vAssert(!killed && err == nil, "long/save-failed")
	want := verifSaved(s1)
	s2 := verifStateWith(nil, a, b)
	s2.MaxValueLen = limit
	_ = AutoLoad(s2, opts)
	vReach("long state reloaded")
	vAssert(verifSaved(s2) == want, "long/auto-load-restores-something-else")
}
