//go:build verif

package repl

import (
	"context"
	"strings"

	"grol.io/grol/eval"
	"grol.io/grol/object"
)

func init() {
	verifHarness["VerifAutoSave"] = VerifAutoSave
}

const verifKilled = "verif: process killed"

// verifStateWith evaluates the inputs in a fresh state (values a, b symbolic).
func verifStateWith(inputs []string, a, b int64) *eval.State {
	s := eval.NewState()
	out := &strings.Builder{}
	s.Out, s.LogOut, s.NoLog = out, out, true
	eval.VerifBindInt(s, "a", a)
	eval.VerifBindInt(s, "b", b)
	opts := Options{All: true, ShowEval: true, NoColor: true}
	for _, in := range inputs {
		_, _, _, _ = EvalOne(context.Background(), s, in, out, opts)
	}
	return s
}

func verifSaved(s *eval.State) string {
	g := &strings.Builder{}
	_, _ = s.SaveGlobals(g)
	return g.String()
}

// verifCrashRun runs AutoSave and "kills the process" at the k-th crash point (k<0: never). Returns whether
// it was killed and the error AutoSave returned otherwise.
func verifCrashRun(s *eval.State, opts Options, k int) (killed bool, err error) {
	n := 0
	hook := func(string) {
		if n == k {
			panic(verifKilled)
		}
		n++
	}
	VerifCrashHook, object.VerifCrashHook = hook, hook
	defer func() {
		VerifCrashHook, object.VerifCrashHook = nil, nil
		if r := recover(); r != nil {
			if msg, ok := r.(string); ok && msg == verifKilled {
				killed = true
				return
			}
			panic(r)
		}
	}()
	err = AutoSave(s, opts)
	return
}

// VerifAutoSave: whatever the instant the process dies during auto-save, ./.gr is the complete previous or
// the complete new file and auto-load restores that state. args: previous-state inputs | new-state inputs (two
// lists separated by "--"), maxCrashPoints
func VerifAutoSave(args []string) {
	var prevIn, newIn []string
	maxK := 0
	cur := &prevIn
	for i, a := range args {
		if i == len(args)-1 {
			maxK = verifAtoi(a)
			break
		}
		if a == "--" {
			cur = &newIn
			continue
		}
		*cur = append(*cur, a)
	}
	// the values are immaterial to atomicity: the variable here is the crash point
	a, b := int64(vRange("a", 6, 7)), int64(-3)
	vFSEnable()
	opts := Options{AutoSave: true, AutoLoad: true}
	// previous session: saved without incident
	sPrev := verifStateWith(prevIn, a, b)
	prevText := verifSaved(sPrev)
	hadPrev := len(prevIn) > 0
	if hadPrev {
		killed, err := verifCrashRun(sPrev, opts, -1)
		vAssert(!killed && err == nil, "autosave/crash-free-save-failed")
		got, ok := vFSContent(AutoSaveFile)
		vAssert(ok && got == prevText, "autosave/crash-free-save-wrote-something-else")
	}
	// new session: starts from the previous state (auto-load) and adds to it, then dies at crash point k
	sNew := verifStateWith(nil, a, b)
	_ = AutoLoad(sNew, opts)
	optsEval := Options{All: true, ShowEval: true, NoColor: true}
	out := &strings.Builder{}
	for _, in := range newIn {
		_, _, _, _ = EvalOne(context.Background(), sNew, in, out, optsEval)
	}
	newText := verifSaved(sNew)
	k := vRange("crashpoint", -1, maxK)
	killed, err := verifCrashRun(sNew, opts, k)
	if killed {
		vReach("killed during auto-save")
	} else {
		vReach("auto-save completed")
		vAssert(err == nil, "autosave/returned-error")
	}
	got, ok := vFSContent(AutoSaveFile)
	if !ok {
		vAssert(!hadPrev, "autosave/state-file-vanished")
		vAssert(killed, "autosave/completed-but-no-state-file")
	} else {
		isPrev := hadPrev && got == prevText
		isNew := got == newText
		vAssert(isPrev || isNew, "autosave/state-file-neither-previous-nor-new")
		if !killed {
			vAssert(isNew, "autosave/completed-but-old-state-on-disk")
		}
		// the next session restores one of the two states
		sNext := verifStateWith(nil, a, b)
		_ = AutoLoad(sNext, opts)
		restored := verifSaved(sNext)
		vAssert((hadPrev && restored == prevText) || restored == newText, "autosave/auto-load-restores-neither-state")
	}
	// nothing but ./.gr and ./.grol*.tmp is touched
	for _, p := range vFSList() {
		okName := p == AutoSaveFile || (strings.HasPrefix(p, ".grol") && strings.HasSuffix(p, ".tmp"))
		vAssert(okName, "autosave/other-file-touched")
	}
	// no save when nothing changed since the last one
	if !killed {
		before := len(vFSList())
		c1, _ := vFSContent(AutoSaveFile)
		killed2, err2 := verifCrashRun(sNew, opts, 0)
		vAssert(!killed2 && err2 == nil, "autosave/saves-again-although-nothing-changed")
		c2, _ := vFSContent(AutoSaveFile)
		vAssert(c1 == c2 && len(vFSList()) == before, "autosave/saves-again-although-nothing-changed")
	}
}
