//go:build verif

package extensions

import (
	"grol.io/grol/eval"
	"grol.io/grol/object"
)

func init() {
	verifHarness["VerifSanitize"] = VerifSanitize
	verifHarness["VerifSaveLoad"] = VerifSaveLoad
	verifHarness["VerifRegistration"] = VerifRegistration
}

func verifAtoi(s string) int {
	n, neg := 0, false
	for _, c := range s {
		if c == '-' {
			neg = true
			continue
		}
		n = n*10 + int(c-'0')
	}
	if neg {
		return -n
	}
	return n
}

func verifName(n int) string {
	b := make([]byte, n)
	for i := range b {
		b[i] = vByte("name")
	}
	return string(b)
}

func verifSetMode(mode string) {
	unrestrictedIOs = mode == "unrestricted"
	emptyOnly = mode == "emptyonly"
}

// verifPlainGr is the harness's own statement of "letters, digits and underscores followed by .gr".
func verifPlainGr(p string) bool {
	if len(p) < 3 || p[len(p)-3:] != ".gr" {
		return false
	}
	for i := 0; i < len(p)-3; i++ {
		c := p[i]
		if !(c >= 'a' && c <= 'z' || c >= 'A' && c <= 'Z' || c >= '0' && c <= '9' || c == '_') {
			return false
		}
	}
	return true
}

func verifAllowed(p, mode string) bool {
	if mode == "emptyonly" {
		return p == ".gr"
	}
	return verifPlainGr(p)
}

// VerifSanitize: the sanitiser kernel for every name of n bytes. args: n, mode
func VerifSanitize(args []string) {
	n, mode := verifAtoi(args[0]), args[1]
	verifSetMode(mode)
	name := verifName(n)
	file, err := sanitizeFileName([]object.Object{object.String{Value: name}})
	if err != nil {
		vReach("rejected")
		return
	}
	vReach("accepted")
	if mode == "unrestricted" {
		vAssert(file == name, "unrestricted/name-unchanged")
		return
	}
	vAssert(verifAllowed(file, mode), "restricted/accepted-name-is-plain-gr")
	// acceptance depends on the name only: same answer when asked again
	file2, err2 := sanitizeFileName([]object.Object{object.String{Value: name}})
	vAssert(err2 == nil && file2 == file, "restricted/acceptance-is-a-function-of-the-name")
}

// VerifSaveLoad: save(name) / load(name) against the file-system model. args: n, mode, op(save|load)
func VerifSaveLoad(args []string) {
	n, mode, op := verifAtoi(args[0]), args[1], args[2]
	verifSetMode(mode)
	vFSEnable()
	// bait files a confined program must not be able to read or clobber
	vFSWriteFile("../secret.gr", "LEAK=1\n")
	vFSWriteFile("sub/x.gr", "LEAK=2\n")
	vFSWriteFile("notes.txt", "LEAK=3\n")
	vFSWriteFile("ok.gr", "FINE=1\n")
	vFSWriteFile("dd.gr/inner.txt", "LEAK=4\n") // a directory named like an allowed file
	before := vFSList()
	s := eval.NewState()
	if len(args) > 3 && args[3] == "script" {
		// the program is a script that lives elsewhere: that must not widen what load and save can reach
		s.CurrentFile = "sub/main.gr"
		vReach("running as a script from another directory")
	}
	var callArgs []object.Object
	if n >= 0 {
		callArgs = []object.Object{object.String{Value: verifName(n)}}
	}
	var res object.Object
	if op == "save" {
		res = saveFunc(s, "save", callArgs)
	} else {
		res = loadFunc(s, "load", callArgs)
	}
	after := vFSList()
	if mode == "unrestricted" {
		return
	}
	// every file that exists now either existed before or has an allowed name
	for _, p := range after {
		old := false
		for _, q := range before {
			old = old || p == q
		}
		if !old {
			vReach("file created")
			vAssert(verifAllowed(p, mode), "restricted/created-file-has-plain-gr-name")
		}
	}
	// bait files untouched
	for _, bait := range [][2]string{{"../secret.gr", "LEAK=1\n"}, {"sub/x.gr", "LEAK=2\n"}, {"notes.txt", "LEAK=3\n"}, {"dd.gr/inner.txt", "LEAK=4\n"}} {
		c, ok := vFSContent(bait[0])
		vAssert(ok && c == bait[1], "restricted/foreign-file-untouched")
	}
	if res.Type() == object.ERROR {
		// a rejected request has no effect on the file system
		vAssert(len(after) == len(before), "restricted/rejected-request-has-no-effect")
		if c, ok := vFSContent("ok.gr"); mode != "emptyonly" || true {
			vAssert(ok && c == "FINE=1\n", "restricted/rejected-request-has-no-effect")
		}
		return
	}
	if op == "load" {
		vReach("load succeeded")
		// nothing outside plain .gr names can have been evaluated
		_, lerr := eval.EvalString(s, "LEAK", false)
		vAssert(lerr != nil, "restricted/load-read-a-foreign-file")
	}
}

// VerifRegistration: which IO functions exist under each configuration. args: hasLoad hasSave emptyOnly unrestricted (0/1 each)
func VerifRegistration(args []string) {
	c := &Config{HasLoad: args[0] == "1", HasSave: args[1] == "1", LoadSaveEmptyOnly: args[2] == "1", UnrestrictedIOs: args[3] == "1"}
	initDone = false
	if err := Init(c); err != nil {
		vAssert(false, "init-failed")
		return
	}
	fns := object.ExtraFunctions()
	_, hasExec := fns["exec"]
	_, hasRun := fns["run"]
	_, hasLoad := fns["load"]
	_, hasSave := fns["save"]
	vAssert(hasExec == c.UnrestrictedIOs && hasRun == c.UnrestrictedIOs, "process-execution-functions-only-when-unrestricted")
	vAssert(hasLoad == c.HasLoad, "load-present-iff-enabled")
	vAssert(hasSave == c.HasSave, "save-present-iff-enabled")
	vReach("registration checked")
}
