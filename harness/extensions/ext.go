//go:build verif

package extensions

import (
	"strings"

	"grol.io/grol/eval"
	"grol.io/grol/lexer"
	"grol.io/grol/object"
	"grol.io/grol/parser"
)

func init() {
	verifHarness["VerifExtNoPanic"] = VerifExtNoPanic
}

// verifExtState: an interpreter with the extensions registered (restricted IO, as the wasm/bot builds run).
func verifExtState() (*eval.State, *strings.Builder) {
	initDone = false
	if err := Init(&Config{HasLoad: true, HasSave: true}); err != nil {
		vAssert(false, "init-failed")
	}
	s := eval.NewState()
	out := &strings.Builder{}
	s.Out, s.LogOut, s.NoLog = out, out, true
	s.MaxDepth = 60
	return s, out
}

// VerifExtNoPanic: a program that calls extension functions with arguments of any kind ends in a value or an
// error object for every value of its free variables (a b: Integer, x y: Float, p: Boolean); the only panics
// are the documented guards. args: code
func VerifExtNoPanic(args []string) {
	code := args[0]
	p := parser.New(lexer.New(code))
	prog := p.ParseProgram()
	if len(p.Errors()) != 0 {
		vReach("skeleton does not parse")
		return
	}
	s, _ := verifExtState()
	for _, n := range []string{"a", "b"} {
		if eval.VerifUsesIdent(code, n) {
			eval.VerifBind(s, n, object.Integer{Value: vInt64(n)})
		}
	}
	for _, n := range []string{"x", "y"} {
		if eval.VerifUsesIdent(code, n) {
			eval.VerifBind(s, n, object.Float{Value: vFloat64(n)})
		}
	}
	if eval.VerifUsesIdent(code, "p") {
		eval.VerifBind(s, "p", object.NativeBoolToBooleanObject(vBool("p")))
	}
	defer func() {
		if r := recover(); r != nil {
			if eval.VerifIsGuard(r) {
				vReach("resource guard")
				return
			}
			panic(r)
		}
	}()
	res := eval.VerifEval(s, prog)
	vAssert(res != nil, "result-is-a-value-or-error")
	if res != nil && res.Type() == object.ERROR {
		vReach("language-level error")
	} else {
		vReach("value")
	}
}

func init() {
	verifHarness["VerifRegDiffExt"] = VerifRegDiffExt
}

// VerifRegDiffExt: registers on and off are indistinguishable (eval.VerifRegDiff) for sessions that call extension
// functions - eval(), in particular, resolves names at run time. a, b: all int64. args: inputs...
func VerifRegDiffExt(args []string) {
	verifExtState()
	vals := map[string]object.Object{}
	all := strings.Join(args, "\n")
	for _, n := range []string{"a", "b"} {
		if eval.VerifUsesIdent(all, n) {
			vals[n] = object.Integer{Value: vInt64(n)}
		}
	}
	diffs, completed := eval.VerifRegDiffVals(args, vals)
	for _, d := range diffs {
		vAssert(false, d)
	}
	if completed > 0 {
		vReach("input completed")
	}
}
