//go:build verif

package object

import (
	"grol.io/grol/ast"
	"grol.io/grol/token"
)

func init() {
	verifHarness["VerifCmpLaws"] = VerifCmpLaws
}

func verifAtoi(s string) int {
	n, neg := 0, false
	for _, c := range s {
		if c == '-' {
			neg = true
			continue
		}
		n = n*10 + int(c-'0')
	}
	if neg {
		return -n
	}
	return n
}

func verifStr(tag string, maxLen int) string {
	n := vRange(tag+"_len", 0, maxLen)
	b := make([]byte, n)
	for i := range b {
		b[i] = vByte(tag)
	}
	return string(b)
}

// verifScalar builds a scalar of the given kind with symbolic content.
func verifScalar(kind byte, tag string) Object {
	switch kind {
	case 'I':
		return Integer{Value: vInt64(tag)}
	case 'F':
		return Float{Value: vFloat64(tag)}
	case 'B':
		return NativeBoolToBooleanObject(vBool(tag))
	case 'N':
		return NULL
	case 'S':
		return String{Value: verifStr(tag, 2)}
	}
	panic("bad scalar kind")
}

// verifObj builds a value of the given kind: I F B N S scalars; A array of 0..2 integers/floats;
// M map of 0..1 pairs; U function; E error; X extension; Q quote; C macro.
func verifObj(kind string, tag string) Object {
	switch kind[0] {
	case 'I', 'F', 'B', 'N', 'S':
		return verifScalar(kind[0], tag)
	case 'A':
		n := vRange(tag+"_n", 0, 2)
		els := make([]Object, n)
		for i := range els {
			ek := byte('I')
			if len(kind) > 1 {
				ek = kind[1]
			}
			els[i] = verifScalar(ek, tag)
		}
		return NewArray(els)
	case 'M':
		n := vRange(tag+"_n", 0, 1)
		m := NewMap()
		for i := 0; i < n; i++ {
			m = m.Set(verifScalar('I', tag+"k"), verifScalar('I', tag+"v"))
		}
		return m
	case 'P', 'G': // maps of exactly two pairs, as a SmallMap (P) or in the large representation (G: what a larger map shrinks to)
		k1, k2 := verifScalar('I', tag+"k"), verifScalar('I', tag+"k")
		vAssume(Cmp(k1, k2) < 0)
		kv := []keyValuePair{{Key: k1, Value: verifScalar('I', tag+"v")}, {Key: k2, Value: verifScalar('I', tag+"v")}}
		if kind[0] == 'G' {
			return &BigMap{kv: kv}
		}
		sm := SmallMap{len: 2}
		copy(sm.smallKV[:], kv)
		return sm
	case 'H': // a map whose key is a function / a large array / a small array holding a function
		return NewMap().Set(Function{CacheKey: verifStr(tag, 1)}, verifScalar('I', tag+"v"))
	case 'J':
		els := make([]Object, 9)
		for i := range els {
			els[i] = Integer{Value: int64(i)}
		}
		els[8] = verifScalar('I', tag)
		return NewMap().Set(NewArray(els), verifScalar('I', tag+"v"))
	case 'L':
		return NewMap().Set(NewArray([]Object{Function{CacheKey: verifStr(tag, 1)}}), verifScalar('I', tag+"v"))
	case 'U':
		return Function{CacheKey: verifStr(tag, 1)}
	case 'E':
		return Error{Value: verifStr(tag, 1)}
	case 'X':
		return Extension{Name: verifStr(tag, 1)}
	case 'Q':
		return Quote{Node: &ast.Identifier{Base: ast.Base{Token: token.Intern(token.IDENT, verifStr(tag, 1))}}}
	case 'C':
		return Macro{Body: &ast.Statements{}}
	}
	panic("bad kind " + kind)
}

func verifSign(c int) int {
	switch {
	case c < 0:
		return -1
	case c > 0:
		return 1
	}
	return 0
}

func verifCopy(o Object) Object {
	switch v := o.(type) {
	case SmallArray:
		return NewArray(append([]Object{}, v.Elements()...))
	case BigArray:
		return NewArray(append([]Object{}, v.Elements()...))
	case SmallMap:
		m := NewMap()
		for _, kv := range v.mapElements() {
			m = m.Set(kv.Key, kv.Value)
		}
		return m
	}
	return o
}

// VerifCmpLaws: ordering and equality laws on three values of the given kinds. args: kindA kindB kindC
func VerifCmpLaws(args []string) {
	a, b, c := verifObj(args[0], "a"), verifObj(args[1], "b"), verifObj(args[2], "c")
	ab, ba := Cmp(a, b), Cmp(b, a)
	vAssert(ab >= -1 && ab <= 1, "cmp/range")
	vAssert(Cmp(a, a) == 0, "cmp/reflexive")
	vAssert(verifSign(ab) == -verifSign(ba), "cmp/antisymmetric")
	bc, ac := Cmp(b, c), Cmp(a, c)
	if ab <= 0 && bc <= 0 {
		vReach("transitivity premise")
		vAssert(ac <= 0, "cmp/transitive")
		if ab == 0 && bc == 0 {
			vAssert(ac == 0, "cmp/equivalence-transitive")
		}
	}
	// equality
	eab, eba := Equals(a, b), Equals(b, a)
	vAssert(eab == eba, "equals/symmetric")
	if eab {
		vReach("equal pair")
		vAssert(ab == 0, "equals/implies-order-equivalent")
		if Equals(b, c) {
			vAssert(Equals(a, c), "equals/transitive")
		}
	}
	vAssert(Equals(a, verifCopy(a)) == Equals(a, a), "equals/copy")
	// == is reflexive except for NaN-bearing values, where it is documented not to be
	if !Equals(a, a) {
		vReach("value not equal to itself")
		vAssert(verifHasNaN(a), "equals/reflexive-except-nan")
	}
}

func verifHasNaN(o Object) bool {
	switch v := o.(type) {
	case Float:
		return v.Value != v.Value
	case SmallArray:
		for _, e := range v.Elements() {
			if verifHasNaN(e) {
				return true
			}
		}
	case BigArray:
		for _, e := range v.Elements() {
			if verifHasNaN(e) {
				return true
			}
		}
	case SmallMap:
		for _, kv := range v.mapElements() {
			if verifHasNaN(kv.Key) || verifHasNaN(kv.Value) {
				return true
			}
		}
	}
	return false
}
