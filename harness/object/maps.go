//go:build verif

package object

func init() {
	verifHarness["VerifMapStep"] = VerifMapStep
}

func verifKey(kind byte, tag string) Object {
	switch kind {
	case 'I':
		return Integer{Value: vInt64(tag)}
	case 'F':
		return Float{Value: vFloat64(tag)}
	case 'B':
		return NativeBoolToBooleanObject(vBool(tag))
	case 'N':
		return NULL
	case 'S':
		return String{Value: string([]byte{vByte(tag)})}
	case 'A':
		return NewArray([]Object{Integer{Value: vInt64(tag)}})
	case 'E': // containers of other sizes: the order of containers looks at sizes first
		return NewArray([]Object{})
	case 'T':
		return NewArray([]Object{Integer{Value: vInt64(tag)}, Integer{Value: vInt64(tag)}})
	case 'W':
		return NewArray([]Object{Integer{Value: vInt64(tag)}, NULL, Integer{Value: vInt64(tag)}})
	case 'M':
		return NewMap().Set(Integer{Value: vInt64(tag)}, TRUE)
	case 'Q':
		return NewMap().Set(Integer{Value: vInt64(tag)}, TRUE).Set(String{Value: "k"}, NULL).Set(NULL, NULL)
	}
	panic("bad key kind")
}

// verifSortedPairs returns m pairs with symbolic keys of the given kinds, assumed strictly increasing in the
// language's key order, and symbolic integer values.
func verifSortedPairs(kinds string, tag string) []keyValuePair {
	kv := make([]keyValuePair, len(kinds))
	for i := range kv {
		kv[i] = keyValuePair{Key: verifKey(kinds[i], tag+"k"), Value: Integer{Value: vInt64(tag + "v")}}
		if f, ok := kv[i].Key.(Float); ok {
			vAssume(f.Value == f.Value) // NaN keys are documented not to behave as keys (TestNaNMapKey)
		}
		if i > 0 {
			vAssume(Cmp(kv[i-1].Key, kv[i].Key) < 0)
		}
	}
	return kv
}

// verifBuild constructs the representation directly from sorted pairs (the representation invariant).
func verifBuild(repr string, kv []keyValuePair) Map {
	if repr == "small" {
		m := SmallMap{len: len(kv)}
		copy(m.smallKV[:], kv)
		return m
	}
	return &BigMap{kv: append(make([]keyValuePair, 0, len(kv)), kv...)}
}

// ---- reference: a sorted association list

func refFind(l []keyValuePair, k Object) (int, bool) {
	for i, e := range l {
		if Cmp(e.Key, k) == 0 {
			return i, true
		}
	}
	return -1, false
}

func refSet(l []keyValuePair, k, v Object) []keyValuePair {
	if i, ok := refFind(l, k); ok {
		out := append([]keyValuePair{}, l...)
		out[i].Value = v
		return out
	}
	pos := len(l)
	for i, e := range l {
		if Cmp(e.Key, k) > 0 {
			pos = i
			break
		}
	}
	out := append([]keyValuePair{}, l[:pos]...)
	out = append(out, keyValuePair{Key: k, Value: v})
	return append(out, l[pos:]...)
}

func refDelete(l []keyValuePair, k Object) ([]keyValuePair, bool) {
	i, ok := refFind(l, k)
	if !ok {
		return l, false
	}
	out := append([]keyValuePair{}, l[:i]...)
	return append(out, l[i+1:]...), true
}

func verifSameElements(got []keyValuePair, exp []keyValuePair, label string) {
	vAssert(len(got) == len(exp), label+"/length")
	if len(got) != len(exp) {
		return
	}
	for i := range exp {
		vAssert(Equals(got[i].Key, exp[i].Key), label+"/keys")
		vAssert(Equals(got[i].Value, exp[i].Value), label+"/values")
	}
}

func verifCheckMap(res Object, exp []keyValuePair, label string) {
	m, ok := res.(Map)
	vAssert(ok, label+"/is-map")
	if !ok {
		return
	}
	got := m.mapElements()
	verifSameElements(got, exp, label)
	vAssert(m.Len() == len(exp), label+"/len")
	// the package-level functions the evaluator goes through (len, rest, slicing, iteration) accept the result
	vAssert(Len(res) == len(exp), label+"/package-level-len")
	vAssert(len(Elements(res)) == len(exp), label+"/package-level-elements")
	if len(exp) > 1 {
		if rm, isMap := Rest(res).(Map); isMap {
			vAssert(rm.Len() == len(exp)-1, label+"/package-level-rest-length")
		} else {
			vAssert(false, label+"/package-level-rest-is-not-a-map")
		}
	}
	if rg, isMap := Range(res, 0, int64(len(exp))).(Map); isMap {
		vAssert(rg.Len() == len(exp), label+"/package-level-range-length")
	} else {
		vAssert(false, label+"/package-level-range-is-not-a-map")
	}
	for i := 1; i < len(got); i++ {
		vAssert(Cmp(got[i-1].Key, got[i].Key) < 0, label+"/sorted-unique")
	}
	// history independence: the same content inserted in reverse order into a fresh map is equal and prints alike
	fresh := NewMap()
	for i := len(exp) - 1; i >= 0; i-- {
		fresh = fresh.Set(exp[i].Key, exp[i].Value)
	}
	vAssert(Equals(m, fresh) && Equals(fresh, m), label+"/equals-rebuilt")
	hasString := false
	for _, e := range exp {
		if _, ok := e.Key.(String); ok && e.Key != KeyKey && e.Key != ValueKey {
			hasString = true // printing runs strconv.Quote over every symbolic byte: left to C14
		}
	}
	if !hasString {
		vAssert(m.Inspect() == fresh.Inspect(), label+"/prints-like-rebuilt")
	}
	for _, e := range exp {
		v, found := m.Get(e.Key)
		vAssert(found && Equals(v, e.Value), label+"/lookup")
	}
}

// VerifMapStep: one operation from an arbitrary valid map. args: repr(small|big) keykinds op argkinds
func VerifMapStep(args []string) {
	repr, kinds, op, argKinds := args[0], args[1], args[2], args[3]
	if kinds == "-" {
		kinds = ""
	}
	pre := verifSortedPairs(kinds, "m")
	m := verifBuild(repr, pre)
	ref := append([]keyValuePair{}, pre...)
	switch op {
	case "set":
		k, v := verifKey(argKinds[0], "key"), Integer{Value: vInt64("val")}
		if f, ok := k.(Float); ok {
			vAssume(f.Value == f.Value)
		}
		res := m.Set(k, v)
		if _, big := res.(*BigMap); big && repr == "small" {
			vReach("promoted to big map")
		}
		verifCheckMap(res, refSet(ref, k, v), "set")
	case "get":
		k := verifKey(argKinds[0], "key")
		if f, ok := k.(Float); ok {
			vAssume(f.Value == f.Value)
		}
		v, found := m.Get(k)
		i, rfound := refFind(ref, k)
		vAssert(found == rfound, "get/found")
		if found && rfound {
			vReach("lookup hit")
			vAssert(Equals(v, ref[i].Value), "get/value")
		}
		if !found {
			vAssert(v == NULL, "get/missing-is-nil")
		}
	case "delete":
		k := verifKey(argKinds[0], "key")
		if f, ok := k.(Float); ok {
			vAssume(f.Value == f.Value)
		}
		res, deleted := m.Delete(k)
		exp, rdel := refDelete(ref, k)
		vAssert(deleted == rdel, "delete/reported")
		if deleted {
			vReach("entry deleted")
		}
		verifCheckMap(res, exp, "delete")
	case "append":
		right := verifSortedPairs(argKinds, "r")
		rrepr := "small"
		if len(right) > MaxSmallMap {
			rrepr = "big"
		}
		res := m.Append(verifBuild(rrepr, right))
		exp := ref
		for _, kv := range right {
			exp = refSet(exp, kv.Key, kv.Value)
		}
		verifCheckMap(res, exp, "append")
		// x + y never modifies x
		verifSameElements(m.mapElements(), pre, "append/left-operand-unchanged")
	case "first":
		f := m.First()
		if len(ref) == 0 {
			vAssert(f == NULL, "first/empty-is-nil")
			return
		}
		verifCheckMap(f, []keyValuePair{{Key: KeyKey, Value: ref[0].Key}, {Key: ValueKey, Value: ref[0].Value}}, "first")
	case "rest":
		r := m.Rest()
		if len(ref) <= 1 {
			vAssert(r == NULL, "rest/short-is-nil")
			return
		}
		verifCheckMap(r, ref[1:], "rest")
	case "range":
		n := len(ref)
		l := vRange("l", 0, n)
		r := vRange("r", l, n)
		res := Range(m, int64(l), int64(r))
		verifCheckMap(res, ref[l:r], "range")
	}
}
