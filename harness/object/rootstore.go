//go:build verif

package object

// RootStore exposes the top-level bindings to harnesses of other packages.
func (e *Environment) RootStore() map[string]Object {
	for e.outer != nil {
		e = e.outer
	}
	return e.store
}

// VerifNumReg reports how many integer registers the environment currently holds (C10: none of the root scope's
// may stay taken between two inputs).
func VerifNumReg(e *Environment) int { return e.numReg }
