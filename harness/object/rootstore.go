//go:build verif

package object

// RootStore exposes the top-level bindings to harnesses of other packages.
func (e *Environment) RootStore() map[string]Object {
	for e.outer != nil {
		e = e.outer
	}
	return e.store
}
