//go:build verif

package lexer

import "grol.io/grol/token"

func init() {
	verifHarness["VerifLexStep"] = VerifLexStep
	verifHarness["VerifLexStream"] = VerifLexStream
}

func verifAtoi(s string) int {
	n := 0
	for _, c := range s {
		n = n*10 + int(c-'0')
	}
	return n
}

// The harness's own list of reserved words (README: keywords and builtin functions).
var verifReserved = []string{
	"func", "true", "false", "if", "else", "return", "for", "break", "continue",
	"macro", "quote", "unquote", "len", "first", "rest", "print", "println", "log", "error", "catch", "del",
}

func verifIsWS(c byte) bool { return c == ' ' || c == '\t' || c == '\n' || c == '\r' }

func verifHexVal(c byte) int {
	switch {
	case c >= '0' && c <= '9':
		return int(c - '0')
	case c >= 'a' && c <= 'f':
		return int(c-'a') + 10
	case c >= 'A' && c <= 'F':
		return int(c-'A') + 10
	}
	return 0
}

func verifIsHex(c byte) bool {
	return c >= '0' && c <= '9' || c >= 'a' && c <= 'f' || c >= 'A' && c <= 'F'
}

// verifDecodeString is the reference decoder of a double quoted string body (escape table of the README):
// \n \r \t \a \b \f \v, \xHH, \uHHHH, \UHHHHHHHH, any other escaped byte stands for itself. Bytes past the end read as 0.
func verifDecodeString(body []byte) string {
	at := func(i int) byte {
		if i < len(body) {
			return body[i]
		}
		return 0
	}
	var out []byte
	for i := 0; i < len(body); i++ {
		c := body[i]
		if c != '\\' {
			out = append(out, c)
			continue
		}
		i++
		e := at(i)
		switch e {
		case 'n':
			out = append(out, '\n')
		case 'r':
			out = append(out, '\r')
		case 't':
			out = append(out, '\t')
		case 'a':
			out = append(out, '\a')
		case 'b':
			out = append(out, '\b')
		case 'f':
			out = append(out, '\f')
		case 'v':
			out = append(out, '\v')
		case 'x', 'u', 'U':
			// the hex digits that follow, at most 2 / 4 / 8 of them: an escape never swallows a non-digit
			max := map[byte]int{'x': 2, 'u': 4, 'U': 8}[e]
			r, k := 0, 0
			for k < max && verifIsHex(at(i+1+k)) {
				r = r<<4 | verifHexVal(at(i+1+k))
				k++
			}
			i += k
			if e == 'x' {
				out = append(out, byte(r))
			} else {
				out = append(out, []byte(string(rune(int32(r))))...)
			}
		default:
			out = append(out, e)
		}
	}
	return string(out)
}

// verifStringTerminated scans for the closing quote of the string starting at in[w] (reference: in a double
// quoted string a backslash protects the next byte, whatever it is; a NUL byte ends the scan - known finding).
func verifStringTerminated(in []byte, w int) bool {
	q := in[w]
	for i := w + 1; i < len(in); i++ {
		switch {
		case in[i] == 0:
			return false
		case q == '"' && in[i] == '\\':
			i++
		case in[i] == q:
			return true
		}
	}
	return false
}

// verifCheckToken checks one token against the bytes in[w:end) it claims to span. Returns false when the
// caller should stop (end marker).
func verifCheckToken(l *Lexer, in []byte, w int, tok *token.Token) bool {
	n := len(in)
	end := l.pos
	vAssert(end > w, "progress")
	if tok == l.EOLEOF() {
		if w < n {
			if in[w] == 0 {
				vAssert(false, "end-marker-before-end-of-input/nul-byte")
			} else {
				// only an unterminated string may swallow the rest of the input
				vAssert(in[w] == '"' || in[w] == '`', "end-marker-before-end-of-input")
				if end < n && in[end-1] == 0 {
					vAssert(false, "end-marker-before-end-of-input/nul-byte")
				}
				vAssert(end >= n, "end-marker-before-end-of-input/unterminated-string-consumes-rest")
				// and it is unterminated by an independent scan: a backslash protects exactly the next byte
				vAssert(!verifStringTerminated(in, w), "string/terminated-string-lexed-as-unterminated")
			}
		}
		return false
	}
	t := tok.Type()
	vAssert(t != token.EOF && t != token.EOL, "end-marker-is-unique-object")
	vAssert(end <= n, "token-ends-inside-input")
	if end > n {
		return true
	}
	span := string(in[w:end])
	switch t {
	case token.STRING:
		q := in[w]
		vAssert(q == '"' || q == '`', "string/starts-with-quote")
		vAssert(end-w >= 2 && in[end-1] == q, "string/ends-with-same-quote")
		if end-w >= 2 {
			body := in[w+1 : end-1]
			if q == '`' {
				vAssert(tok.Literal() == string(body), "string/raw-content")
			} else {
				vAssert(tok.Literal() == verifDecodeString(body), "string/escape-table")
			}
		}
	case token.LINECOMMENT:
		vAssert(end-w >= 2 && in[w] == '/' && in[w+1] == '/', "linecomment/starts-with-slashes")
		for i := w; i < end; i++ {
			vAssert(in[i] != '\n' && in[i] != 0, "linecomment/within-one-line")
		}
		vAssert(end == n || in[end] == '\n' || in[end] == 0, "linecomment/runs-to-end-of-line")
		// literal is the span without surrounding white space
		lit := tok.Literal()
		vAssert(len(lit) <= end-w && len(lit) >= 2 && lit == string(in[w:w+len(lit)]), "linecomment/literal-is-prefix-of-span")
		for i := w + len(lit); i < end; i++ {
			c := in[i]
			vAssert(c == ' ' || c == '\t' || c == '\r' || c == '\v' || c == '\f' || c >= 0x80, "linecomment/only-trailing-space-trimmed")
		}
	case token.BLOCKCOMMENT:
		vAssert(end-w >= 2 && in[w] == '/' && in[w+1] == '*', "blockcomment/starts")
		vAssert(tok.Literal() == span, "blockcomment/literal-equals-span")
		// closed at the first "*/" after the opener, or runs to a NUL / the end of the input
		closed := end-w >= 4 && in[end-2] == '*' && in[end-1] == '/'
		if !closed {
			vAssert(end == n || in[end] == 0, "blockcomment/unterminated-runs-to-end")
		}
		for i := w + 2; i+1 < end-2; i++ {
			vAssert(!(in[i] == '*' && in[i+1] == '/'), "blockcomment/stops-at-first-terminator")
		}
	case token.ILLEGAL:
		vAssert(end == w+1, "illegal/single-byte")
	case token.IDENT:
		vAssert(tok.Literal() == span, "literal-equals-span/ident")
		for _, kw := range verifReserved {
			vAssert(span != kw, "keyword-lexed-as-identifier")
		}
	case token.INT, token.FLOAT:
		vAssert(tok.Literal() == span, "literal-equals-span/number")
	default:
		vAssert(tok.Literal() == span, "literal-equals-span/operator-or-keyword")
	}
	return true
}

func verifInput(n int) []byte {
	in := make([]byte, n)
	for i := range in {
		in[i] = vByte("b")
	}
	return in
}

// VerifLexStep: one NextToken from position 0 of an input of n arbitrary bytes, with arbitrary prior flags.
// args: n, mode (file|line)
func VerifLexStep(args []string) {
	n := verifAtoi(args[0])
	lineMode := args[1] == "line"
	in := verifInput(n)
	l := &Lexer{input: in, lineMode: lineMode, lineNumber: int(vInt64("lineNumber")),
		hadWhitespace: vBool("hadWhitespace"), hadNewline: vBool("hadNewline"), lastNewLine: int(vInt64("lastNewLine"))}
	w := 0
	for w < n && verifIsWS(in[w]) {
		w++
	}
	tok := l.NextToken()
	vAssert(tok != nil, "token-not-nil")
	if tok == nil {
		return
	}
	vAssert(l.HadWhitespace() == (w > 0), "had-whitespace-flag")
	if !verifCheckToken(l, in, w, tok) {
		return
	}
	// interning: the same bytes lexed again by a fresh lexer give the same object
	l2 := &Lexer{input: in, lineMode: lineMode, lineNumber: 1}
	tok2 := l2.NextToken()
	vAssert(tok2 == tok, "interning/same-pointer")
	vAssert(l2.pos == l.pos, "position-independent-of-prior-flags")
}

// VerifLexStream: all inputs of n bytes lexed to the end marker. args: n, mode
func VerifLexStream(args []string) {
	n := verifAtoi(args[0])
	lineMode := args[1] == "line"
	in := verifInput(n)
	l := &Lexer{input: in, lineMode: lineMode, lineNumber: 1}
	prevEnd := 0
	for count := 0; ; count++ {
		vAssert(count <= n, "end-marker-within-n+1-tokens")
		if count > n+1 {
			return
		}
		w := prevEnd
		for w < n && verifIsWS(in[w]) {
			w++
		}
		tok := l.NextToken()
		vAssert(tok != nil, "token-not-nil")
		if tok == nil {
			return
		}
		if !verifCheckToken(l, in, w, tok) {
			break
		}
		vAssert(l.pos >= prevEnd, "tokens-in-input-order")
		prevEnd = l.pos
	}
	// the end marker repeats
	for k := 0; k < 2; k++ {
		vAssert(l.NextToken() == l.EOLEOF(), "end-marker-repeats")
	}
}

func init() {
	verifHarness["VerifLexLong"] = VerifLexLong
}

// VerifLexLong: long tokens are lexed like short ones: one token spanning the whole literal, and the same bytes
// lexed by another lexer give the same shared object. args: kind (string|raw|linecomment|blockcomment|number|ident), length
func VerifLexLong(args []string) {
	kind, n := args[0], verifAtoi(args[1])
	fill := byte('a')
	if kind == "number" {
		fill = '7'
	}
	body := make([]byte, n)
	for i := range body {
		body[i] = fill
	}
	// one arbitrary byte of the right class in the middle
	c := vByte("mid")
	if kind == "number" {
		vAssume(c >= '0' && c <= '9')
	} else {
		vAssume(c >= 'a' && c <= 'z' || c >= 'A' && c <= 'Z')
	}
	body[n/2] = c
	var in []byte
	switch kind {
	case "string":
		in = append(append([]byte{'"'}, body...), '"')
	case "raw":
		in = append(append([]byte{'`'}, body...), '`')
	case "linecomment":
		in = append([]byte("//"), body...)
	case "blockcomment":
		in = append(append([]byte("/*"), body...), []byte("*/")...)
	default:
		in = body
	}
	l1 := &Lexer{input: in, lineNumber: 1}
	t1 := l1.NextToken()
	vReach("long token lexed")
	vAssert(l1.pos == len(in), "long/token-spans-the-whole-literal")
	vAssert(len(t1.Literal()) >= n, "long/literal-is-complete")
	l2 := &Lexer{input: append([]byte{}, in...), lineNumber: 1}
	t2 := l2.NextToken()
	vAssert(t1 == t2, "long/interning-same-pointer")
	vAssert(l1.NextToken() == l1.EOLEOF(), "long/end-marker-follows")
}
