//go:build verif

package lexer

import "grol.io/grol/token"

func init() {
	verifHarness["VerifLexStep"] = VerifLexStep
}

func verifAtoi(s string) int {
	n := 0
	for _, c := range s {
		n = n*10 + int(c-'0')
	}
	return n
}

// VerifLexStep: first token of an n byte input, all byte values. args: n, mode(file|line)
func VerifLexStep(args []string) {
	n := verifAtoi(args[0])
	lineMode := args[1] == "line"
	in := make([]byte, n)
	for i := range in {
		in[i] = vByte("b")
	}
	l := &Lexer{input: in, lineMode: lineMode, lineNumber: 1}
	w := 0
	for w < n && isWhiteSpace(in[w]) {
		w++
	}
	tok := l.NextToken()
	end := l.pos
	vAssert(end > w, "progress")
	if tok == l.EOLEOF() {
		return
	}
	t := tok.Type()
	if t != token.STRING && t != token.LINECOMMENT && t != token.BLOCKCOMMENT && t != token.ILLEGAL {
		vAssert(end <= n, "token ends inside input")
		if end <= n {
			vAssert(tok.Literal() == string(in[w:end]), "literal equals span")
		}
	}
}
