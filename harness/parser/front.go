//go:build verif

package parser

import (
	"strconv"
	"strings"

	"grol.io/grol/ast"
	"grol.io/grol/lexer"
	"grol.io/grol/token"
)

func init() {
	verifHarness["VerifTotal"] = VerifTotal
	verifHarness["VerifRoundTrip"] = VerifRoundTrip
	verifHarness["VerifModes"] = VerifModes
}

func verifAtoi(s string) int {
	n := 0
	for _, c := range s {
		n = n*10 + int(c-'0')
	}
	return n
}

// verifText builds the input: the template with every '\x01' replaced by one arbitrary byte.
func verifText(tmpl string) string {
	b := []byte(tmpl)
	for i := range b {
		if b[i] == 1 {
			b[i] = vByte("hole")
		}
	}
	return string(b)
}

// verifHoles decodes the skeleton notation: "@" stands for one symbolic byte ("@@" for a literal @ is not needed).
func verifHoles(s string) string { return strings.ReplaceAll(s, "@", "\x01") }

func verifNew(input string, lineMode bool) *Parser {
	if lineMode {
		return New(lexer.NewLineMode(input))
	}
	return New(lexer.New(input))
}

// verifMissing reports whether the tree has a missing (nil) child. An open slice bound a[n:] is the one
// documented nil: the right side of a ':' directly under an index expression.
func verifMissing(n ast.Node, openSliceOK bool) bool {
	switch v := n.(type) {
	case nil:
		return true
	case *ast.Statements:
		if v == nil {
			return true
		}
		for _, s := range v.Statements {
			if verifMissing(s, false) {
				return true
			}
		}
	case *ast.InfixExpression:
		if verifMissing(v.Left, false) {
			return true
		}
		if v.Right == nil {
			return !(openSliceOK && v.Type() == token.COLON)
		}
		return verifMissing(v.Right, false)
	case *ast.PrefixExpression:
		return verifMissing(v.Right, false)
	case *ast.IndexExpression:
		return verifMissing(v.Left, false) || verifMissing(v.Index, v.Type() == token.LBRACKET)
	case *ast.IfExpression:
		if verifMissing(v.Condition, false) || v.Consequence == nil || verifMissing(v.Consequence, false) {
			return true
		}
		if v.Alternative != nil {
			return verifMissing(v.Alternative, false)
		}
	case *ast.ForExpression:
		return verifMissing(v.Condition, false) || v.Body == nil || verifMissing(v.Body, false)
	case *ast.ReturnStatement:
		if v.ReturnValue != nil {
			return verifMissing(v.ReturnValue, false)
		}
	case *ast.FunctionLiteral:
		for _, p := range v.Parameters {
			if verifMissing(p, false) {
				return true
			}
		}
		return v.Body == nil || verifMissing(v.Body, false)
	case *ast.MacroLiteral:
		for _, p := range v.Parameters {
			if verifMissing(p, false) {
				return true
			}
		}
		return v.Body == nil || verifMissing(v.Body, false)
	case *ast.CallExpression:
		if verifMissing(v.Function, false) {
			return true
		}
		for _, a := range v.Arguments {
			if verifMissing(a, false) {
				return true
			}
		}
	case *ast.Builtin:
		for _, a := range v.Parameters {
			if verifMissing(a, false) {
				return true
			}
		}
	case *ast.ArrayLiteral:
		for _, a := range v.Elements {
			if verifMissing(a, false) {
				return true
			}
		}
	case *ast.MapLiteral:
		for _, k := range v.Order {
			if verifMissing(k, false) || verifMissing(v.Pairs[k], false) {
				return true
			}
		}
	case *ast.Identifier:
		return v == nil
	case *ast.PostfixExpression:
		return v == nil || v.Prev == nil
	}
	return false
}

// verifShape is the harness's own structural fingerprint of a tree (independent of the printer under test).
// Comments are included unless dropComments.
func verifShape(n ast.Node, dropComments bool, sb *strings.Builder) {
	list := func(tag string, ns []ast.Node) {
		sb.WriteString("(" + tag)
		for _, c := range ns {
			if dropComments {
				if _, ok := c.(*ast.Comment); ok {
					continue
				}
			}
			sb.WriteString(" ")
			verifShape(c, dropComments, sb)
		}
		sb.WriteString(")")
	}
	switch v := n.(type) {
	case nil:
		sb.WriteString("<nil>")
	case *ast.Statements:
		if v == nil {
			sb.WriteString("<nilblock>")
			return
		}
		list("block", v.Statements)
	case *ast.InfixExpression:
		sb.WriteString("(infix " + v.Literal() + " ")
		verifShape(v.Left, dropComments, sb)
		sb.WriteString(" ")
		verifShape(v.Right, dropComments, sb)
		sb.WriteString(")")
	case *ast.PrefixExpression:
		sb.WriteString("(prefix " + v.Literal() + " ")
		verifShape(v.Right, dropComments, sb)
		sb.WriteString(")")
	case *ast.PostfixExpression:
		sb.WriteString("(postfix " + v.Literal() + " " + v.Prev.Literal() + ")")
	case *ast.IndexExpression:
		sb.WriteString("(index " + v.Literal() + " ")
		verifShape(v.Left, dropComments, sb)
		sb.WriteString(" ")
		verifShape(v.Index, dropComments, sb)
		sb.WriteString(")")
	case *ast.IfExpression:
		sb.WriteString("(if ")
		verifShape(v.Condition, dropComments, sb)
		sb.WriteString(" ")
		verifShape(v.Consequence, dropComments, sb)
		if v.Alternative != nil {
			sb.WriteString(" ")
			verifShape(v.Alternative, dropComments, sb)
		}
		sb.WriteString(")")
	case *ast.ForExpression:
		sb.WriteString("(for ")
		verifShape(v.Condition, dropComments, sb)
		sb.WriteString(" ")
		verifShape(v.Body, dropComments, sb)
		sb.WriteString(")")
	case *ast.ReturnStatement:
		sb.WriteString("(return")
		if v.ReturnValue != nil {
			sb.WriteString(" ")
			verifShape(v.ReturnValue, dropComments, sb)
		}
		sb.WriteString(")")
	case *ast.FunctionLiteral:
		sb.WriteString("(func")
		if v.Name != nil {
			sb.WriteString(" name=" + v.Name.Literal())
		}
		if v.Variadic {
			sb.WriteString(" variadic")
		}
		list(" params", v.Parameters)
		sb.WriteString(" ")
		verifShape(v.Body, dropComments, sb)
		sb.WriteString(")")
	case *ast.MacroLiteral:
		list("(macro params", v.Parameters)
		sb.WriteString(" ")
		verifShape(v.Body, dropComments, sb)
		sb.WriteString(")")
	case *ast.CallExpression:
		sb.WriteString("(call ")
		verifShape(v.Function, dropComments, sb)
		list(" args", v.Arguments)
		sb.WriteString(")")
	case *ast.Builtin:
		list("(builtin "+v.Literal(), v.Parameters)
		sb.WriteString(")")
	case *ast.ArrayLiteral:
		list("array", v.Elements)
	case *ast.MapLiteral:
		sb.WriteString("(map")
		for _, k := range v.Order {
			sb.WriteString(" ")
			verifShape(k, dropComments, sb)
			sb.WriteString("=>")
			verifShape(v.Pairs[k], dropComments, sb)
		}
		sb.WriteString(")")
	case *ast.Identifier:
		sb.WriteString("(id " + v.Literal() + ")")
	case *ast.IntegerLiteral:
		sb.WriteString("(int " + strconv.FormatInt(v.Val, 10) + ")")
	case *ast.FloatLiteral:
		sb.WriteString("(float " + v.Literal() + ")")
	case *ast.StringLiteral:
		sb.WriteString("(str " + strconv.Itoa(len(v.Literal())) + ":" + v.Literal() + ")")
	case *ast.Boolean:
		sb.WriteString("(bool " + v.Literal() + ")")
	case *ast.Comment:
		sb.WriteString("(comment " + v.Literal() + ")")
	case *ast.ControlExpression:
		sb.WriteString("(control " + v.Literal() + ")")
	default:
		sb.WriteString("(other " + n.Value().Literal() + ")")
	}
}

func verifShapeOf(n ast.Node, dropComments bool) string {
	sb := &strings.Builder{}
	verifShape(n, dropComments, sb)
	return sb.String()
}

func verifPrint(prog *ast.Statements, compact, allParens bool) string {
	ps := ast.NewPrintState()
	ps.Compact = compact
	ps.AllParens = allParens
	return prog.PrettyPrint(ps).String()
}

// VerifTotal: lexing and parsing arbitrary bytes terminates without panic and yields errors, a continuation
// request, or a complete tree that prints in every mode. args: template ('@' = arbitrary byte), mode(file|line)
func VerifTotal(args []string) {
	input := verifText(verifHoles(args[0]))
	lineMode := args[1] == "line"
	p := verifNew(input, lineMode)
	prog := p.ParseProgram()
	vAssert(prog != nil, "total/program-not-nil")
	errs, cont := p.Errors(), p.ContinuationNeeded()
	if len(errs) > 0 {
		vReach("errors reported")
		return
	}
	if cont {
		vReach("continuation requested")
		vAssert(lineMode, "total/continuation-only-in-line-mode")
		return
	}
	vReach("tree returned")
	vAssert(!verifMissing(prog, false), "total/tree-has-a-missing-child")
	if verifMissing(prog, false) {
		return
	}
	_ = verifPrint(prog, false, false)
	_ = verifPrint(prog, true, false)
	_ = verifPrint(prog, true, true)
}

// VerifRoundTrip: what the formatter prints parses back to the same tree (C02) and is a fixpoint (C03).
// args: template, print mode (normal|compact), what (roundtrip = C02 | fixpoint = C03)
func VerifRoundTrip(args []string) {
	c03 := len(args) > 2 && args[2] == "fixpoint"
	input := verifText(verifHoles(args[0]))
	compact := args[1] == "compact"
	at := "#" + strings.ReplaceAll(args[0], "\n", "\\n") + "|" + args[1] // the skeleton is the discriminator of a finding
	if len(args) > 3 && args[3] != "" {
		at = "#" + args[3] + "|" + args[1] // skeleton families whose members fail alike share one discriminator
	}
	p := verifNew(input, false)
	prog := p.ParseProgram()
	if len(p.Errors()) > 0 || verifMissing(prog, false) {
		vReach("input rejected")
		return
	}
	vReach("input parses")
	text := verifPrint(prog, compact, false)
	p2 := verifNew(text, false)
	prog2 := p2.ParseProgram()
	if !c03 {
		vAssert(len(p2.Errors()) == 0, "roundtrip/printed-form-does-not-parse"+at)
		if len(p2.Errors()) != 0 {
			return
		}
		vAssert(!verifMissing(prog2, false), "roundtrip/printed-form-parses-to-incomplete-tree"+at)
		vAssert(verifShapeOf(prog, compact) == verifShapeOf(prog2, compact), "roundtrip/tree-changed"+at)
		return
	}
	if len(p2.Errors()) != 0 || verifMissing(prog2, false) {
		vReach("printed form rejected (C02's subject)")
		return
	}
	// canonical: formatting the formatted text changes nothing
	text2 := verifPrint(prog2, compact, false)
	vAssert(text2 == text, "fixpoint/second-format-differs"+at)
	if !compact {
		n := len(text)
		vAssert(n >= 1 && text[n-1] == '\n' && (n < 2 || text[n-2] != '\n'), "fixpoint/normal-output-ends-with-exactly-one-newline"+at)
	}
	// deterministic: the same input formatted again (interning state now differs) gives the same bytes
	p3 := verifNew(input, false)
	prog3 := p3.ParseProgram()
	if len(p3.Errors()) == 0 {
		vAssert(verifPrint(prog3, compact, false) == text, "fixpoint/format-depends-on-earlier-parses"+at)
	}
}

// VerifModes: a complete program parses to the same tree in line mode and in file mode. args: template
func VerifModes(args []string) {
	input := verifText(verifHoles(args[0]))
	pl := verifNew(input, true)
	progL := pl.ParseProgram()
	pf := verifNew(input, false)
	progF := pf.ParseProgram()
	lineOK := len(pl.Errors()) == 0 && !pl.ContinuationNeeded()
	fileOK := len(pf.Errors()) == 0
	if len(args) > 1 && args[1] == "complete" {
		// a program that is complete by construction: line mode must take it as it is
		vAssert(fileOK, "modes/complete-program-rejected-in-file-mode")
		vAssert(lineOK, "modes/complete-program-not-accepted-in-line-mode")
	}
	if lineOK {
		vReach("line mode accepts")
		vAssert(fileOK, "modes/line-accepts-file-rejects")
		if fileOK {
			vAssert(verifShapeOf(progL, false) == verifShapeOf(progF, false), "modes/different-trees")
		}
	}
	if !fileOK {
		vAssert(len(pl.Errors()) > 0 || pl.ContinuationNeeded(), "modes/file-rejects-line-accepts")
	}
}

func init() {
	verifHarness["VerifContinuation"] = VerifContinuation
}

// VerifContinuation: a prefix of a valid program that ends inside an open construct (or right after a binary
// operator) makes the line-mode parser ask for more input and report no error. args: prefix
func VerifContinuation(args []string) {
	p := verifNew(verifText(verifHoles(args[0])), true)
	_ = p.ParseProgram()
	vReach("prefix parsed")
	vAssert(len(p.Errors()) == 0, "continuation/error-on-incomplete-input")
	vAssert(p.ContinuationNeeded(), "continuation/not-requested")
}

// VerifShape exports the harness's structural fingerprint for harnesses of other packages.
func VerifShape(n ast.Node) string { return verifShapeOf(n, true) }

func init() {
	verifHarness["VerifParseShape"] = VerifParseShape
}

// VerifParseShape: the text parses without error to the tree the documented precedence and (left)
// associativity prescribe. args: text, expected fingerprint
func VerifParseShape(args []string) {
	p := verifNew(args[0], false)
	prog := p.ParseProgram()
	vAssert(len(p.Errors()) == 0, "precedence/does-not-parse#"+args[0])
	if len(p.Errors()) != 0 {
		return
	}
	vReach("parsed")
	vAssert(verifShapeOf(prog, true) == args[1], "precedence/tree-shape#"+args[0])
}

func init() {
	verifHarness["VerifFormatHistory"] = VerifFormatHistory
	verifFreshFns["format"] = verifFresh_format
}

// verifFresh_format formats one input: args: text, mode. The result starts with a status byte.
func verifFresh_format(args []string) string {
	p := verifNew(args[0], false)
	prog := p.ParseProgram()
	if len(p.Errors()) > 0 || verifMissing(prog, false) {
		return "E"
	}
	return "=" + verifPrint(prog, args[1] == "compact", false)
}

// VerifFormatHistory: formatting an input gives the same bytes whatever the process parsed and printed before
// (C03: "in any process and after any other inputs were parsed"). args: template, earlier template, mode
func VerifFormatHistory(args []string) {
	input := verifText(verifHoles(args[0]))
	earlier := verifText(verifHoles(args[1]))
	if verifFresh_format([]string{earlier, args[2]}) == "E" {
		vReach("earlier input rejected")
		return
	}
	after := verifFresh_format([]string{input, args[2]})
	if after == "E" {
		vReach("input rejected")
		return
	}
	vReach("formatted after another input")
	fresh := vFresh("format", []string{input, args[2]})
	vAssert(after == fresh, "history/format-depends-on-earlier-parses|"+args[2])
}
