//go:build verif

package trie

func init() {
	verifHarness["VerifTrieSet"] = VerifTrieSet
}

func verifAtoi(s string) int {
	n := 0
	for _, c := range s {
		n = n*10 + int(c-'0')
	}
	return n
}

// verifWord returns a word of length 0..maxLen whose bytes are symbolic over the alphabet.
func verifWord(tag string, maxLen int, alphabet []byte) string {
	n := vRange(tag+"_len", 0, maxLen)
	b := make([]byte, n)
	for i := range b {
		c := vByte(tag)
		ok := false
		for _, a := range alphabet {
			ok = ok || c == a
		}
		vAssume(ok)
		b[i] = c
	}
	return string(b)
}

func verifHasPrefix(s, p string) bool { return len(s) >= len(p) && s[:len(p)] == p }

// VerifTrieSet: insert k words (any order = the order of the symbolic words), then query.
// args: k, maxLen, maxQueryLen, alphabet family (ab | edge)
func VerifTrieSet(args []string) {
	k, maxLen, maxQ := verifAtoi(args[0]), verifAtoi(args[1]), verifAtoi(args[2])
	alphabet := []byte{'a', 'b'}
	if args[3] == "edge" {
		alphabet = []byte{'a', 0x00, 0xff}
	}
	t := NewTrie()
	var words []string
	for i := 0; i < k; i++ {
		w := verifWord("w", maxLen, alphabet)
		t.Insert(w)
		if w != "" {
			words = append(words, w)
		}
	}
	q := verifWord("q", maxQ, alphabet)
	// reference: sorted, de-duplicated members that start with q
	member := false
	var exp []string
	for _, w := range words {
		if w == q {
			member = true
		}
		if !verifHasPrefix(w, q) {
			continue
		}
		pos, dup := len(exp), false
		for j, e := range exp {
			if e == w {
				dup = true
				break
			}
			if w < e {
				pos = j
				break
			}
		}
		if dup {
			continue
		}
		exp = append(exp, "")
		copy(exp[pos+1:], exp[pos:])
		exp[pos] = w
	}
	vAssert(t.Contains(q) == member, "contains-iff-inserted")
	l, got := t.PrefixAll(q)
	vAssert(len(got) == len(exp), "prefix-query/result-count")
	if len(got) != len(exp) {
		return
	}
	for i := range exp {
		vAssert(got[i] == exp[i], "prefix-query/words-in-byte-order")
	}
	if len(exp) > 0 {
		vReach("non-empty prefix result")
		// longest common prefix of the expected words
		lcp := len(exp[0])
		for _, e := range exp[1:] {
			j := 0
			for j < lcp && j < len(e) && e[j] == exp[0][j] {
				j++
			}
			lcp = j
		}
		vAssert(l == lcp, "prefix-query/longest-common-prefix-length")
		if len(exp) > 1 {
			vReach("several completions")
		}
	}
}
