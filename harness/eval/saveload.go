//go:build verif

package eval

import (
	"strings"

	"grol.io/grol/object"
)

func init() {
	verifHarness["VerifSaveLoad"] = VerifSaveLoad
}

// VerifSaveLoad: saving the globals and loading the text line by line into a fresh state gives back equal
// values of the same type; one line per binding; saving again gives the same bytes.
// args: kind of symbolic values (str1|str2|str3|int|none), maxValueLen, inputs...
func VerifSaveLoad(args []string) {
	kind, maxLen, inputs := args[0], verifAtoi(args[1]), args[2:]
	at := "#" + kind + ":" + strings.ReplaceAll(strings.Join(args[2:], "; "), "\n", "\\n")
	s, _ := verifNewState(false)
	s.MaxValueLen = maxLen
	switch kind {
	case "str1", "str2", "str3":
		n := int(kind[3] - '0')
		b := make([]byte, n)
		for i := range b {
			b[i] = vByte("s")
		}
		s.env.SetNoChecks("s", object.String{Value: string(b)}, true)
	case "int":
		v := vInt64("a")
		lim := int64(verifAtoi(args[2]))
		inputs = args[3:]
		vAssume(v > -lim && v < lim)
		s.env.SetNoChecks("a", object.Integer{Value: v}, true)
	}
	for _, in := range inputs {
		o := verifRunOne(s, in)
		if o.panics != "" || o.isErr {
			vReach("setup input failed")
			return
		}
	}
	var sb strings.Builder
	n, err := s.SaveGlobals(&sb)
	vAssert(err == nil, "save/error")
	text := sb.String()
	// each saved binding occupies exactly one line
	lines := strings.Split(text, "\n")
	vAssert(len(lines) == n+1 && lines[n] == "", "save/not-one-line-per-binding"+at)
	if len(lines) != n+1 {
		return
	}
	vReach("saved")
	// load like auto-load does: one line at a time
	s2, _ := verifNewState(false)
	for _, line := range lines[:n] {
		o := verifRunOne(s2, line)
		vAssert(o.panics == "" && !o.isErr, "load/line-does-not-evaluate"+at)
		if o.panics != "" || o.isErr {
			return
		}
	}
	// every saved data global comes back equal and of the same type; functions behave identically
	saved := 0
	for name, v := range s.env.RootStore() {
		v = object.Value(v)
		inFile := false
		for _, line := range lines[:n] {
			if strings.HasPrefix(line, name+"=") || strings.HasPrefix(line, "func "+name+"(") {
				inFile = true
			}
		}
		if !inFile {
			if maxLen > 0 {
				// skipped because too long: it must be absent, not truncated
				vReach("value skipped")
			}
			continue
		}
		saved++
		v2, ok := s2.env.RootStore()[name]
		vAssert(ok, "load/binding-missing"+at)
		if !ok {
			continue
		}
		v2 = object.Value(v2)
		if v.Type() == object.FUNC {
			vAssert(v2.Type() == object.FUNC, "load/function-came-back-as-something-else"+at)
			if v2.Type() == object.FUNC {
				f1, f2 := v.(object.Function), v2.(object.Function)
				vAssert(f1.Inspect() == f2.Inspect(), "load/function-text-differs"+at)
				x1 := verifCall(s, name)
				x2 := verifCall(s2, name)
				verifSameOutcome(x1, x2, "load/function-behaves-differently"+at)
			}
			continue
		}
		vAssert(v.Type() == v2.Type(), "load/type-changed"+at)
		if v.Type() == v2.Type() {
			vAssert(verifSame(v, v2), "load/value-changed"+at)
		}
	}
	vAssert(saved == n, "save/count-does-not-match-file")
	// saving the reloaded state again yields the same file
	var sb2 strings.Builder
	s2.MaxValueLen = maxLen
	_, _ = s2.SaveGlobals(&sb2)
	vAssert(sb2.String() == text, "save/second-save-differs"+at)
}

// verifCall calls the global function name with (3, 4)-ish arguments matching its arity.
func verifCall(s *State, name string) verifOutcome {
	f := object.Value(s.env.RootStore()[name]).(object.Function)
	args := []string{}
	for i := range f.Parameters {
		if f.Variadic && i == len(f.Parameters)-1 {
			break
		}
		args = append(args, []string{"3", "4", "5", "6"}[i%4])
	}
	s.Out.(*strings.Builder).Reset()
	o := verifRunOne(s, name+"("+strings.Join(args, ",")+")")
	o.out = s.Out.(*strings.Builder).String()
	return o
}
