//go:build verif

package eval

import (
	"strings"

	"grol.io/grol/ast"
	"grol.io/grol/object"
	"grol.io/grol/parser"
)

func init() {
	verifHarness["VerifMacro"] = VerifMacro
}

func verifPrintTree(prog ast.Node, compact bool) string {
	ps := ast.NewPrintState()
	ps.Compact = compact
	return prog.PrettyPrint(ps).String()
}

// VerifMacro: macro expansion is exact syntactic substitution.
// args: macro definitions; program using the macros; the hand-substituted program; names of the macros (comma separated)
func VerifMacro(args []string) {
	defs, use, hand, names := args[0], args[1], args[2], strings.Split(args[3], ",")
	all := []string{use, hand}
	vals := verifVals(all)
	verifSmallVals(all, vals)

	s, out := verifNewState(false)
	s.MaxDepth = 80
	for n, v := range vals {
		s.env.SetNoChecks(n, v, true)
	}
	prog, ok := verifParse(defs + "\n" + use)
	handProg, ok2 := verifParse(hand)
	if !ok || !ok2 {
		vReach("skeleton does not parse")
		return
	}
	s.DefineMacros(prog)
	before := make([]string, len(names))
	for i, n := range names {
		m, found := s.macroState.Get(n)
		vAssert(found, "macro/definition-not-registered")
		if !found {
			return
		}
		before[i] = parser.VerifShape(m.(*object.Macro).Body)
	}
	expanded := s.ExpandMacros(prog)
	vReach("expanded")
	// arguments are not evaluated during expansion: nothing was printed, nothing failed
	vAssert(out.String() == "", "macro/argument-evaluated-during-expansion")
	// the expanded tree is the hand-substituted tree
	vAssert(parser.VerifShape(expanded) == parser.VerifShape(handProg), "macro/expansion-differs-from-hand-substitution")
	// the definition is not altered by its uses
	for i, n := range names {
		m, _ := s.macroState.Get(n)
		vAssert(parser.VerifShape(m.(*object.Macro).Body) == before[i], "macro/definition-altered-by-use")
	}
	// expanding the same program text again (second use of the definitions) gives the same tree
	prog2, _ := verifParse(use)
	expanded2 := s.ExpandMacros(prog2)
	vAssert(parser.VerifShape(expanded2) == parser.VerifShape(handProg), "macro/second-expansion-differs")
	// the expanded program prints and re-parses like the hand-substituted one (whether the printer itself is
	// faithful is C02's subject: both sides go through it)
	for _, compact := range []bool{false, true} {
		text := verifPrintTree(expanded, compact)
		handText := verifPrintTree(handProg, compact)
		vAssert(text == handText, "macro/expanded-program-prints-differently")
		rp, okp := verifParse(text)
		rh, okh := verifParse(handText)
		vAssert(okp == okh, "macro/expanded-program-does-not-reparse")
		if okp && okh {
			vAssert(parser.VerifShape(rp) == parser.VerifShape(rh), "macro/expanded-program-reparses-differently")
		}
	}
	// and evaluates like it
	o1 := verifRunProg(s, expanded)
	o1.out = out.String()
	s2, out2 := verifNewState(false)
	s2.MaxDepth = 80
	for n, v := range vals {
		s2.env.SetNoChecks(n, v, true)
	}
	o2 := verifRunProg(s2, handProg)
	o2.out = out2.String()
	verifSameOutcome(o1, o2, "macro/evaluation")
}
