//go:build verif

package eval

import (
	"errors"
	"strings"
	"time"

	"grol.io/grol/object"
)

func init() {
	verifHarness["VerifGuardSize"] = VerifGuardSize
	verifHarness["VerifCancel"] = VerifCancel
	verifHarness["VerifDepth"] = VerifDepth
}

// the memory model of the symbolic run: object.FreeMemory() returns an arbitrary amount, fixed per path.
var verifFree int64

func verifStub_object_FreeMemory() int64 { return verifFree }

// Optional stub of the memory guard: records the guarded size and stops there (nothing is allocated), so the
// guard relation can be checked for every operand value, not only for results small enough to materialise.
var verifGuarded int64 = -1

func verifStubOpt_object_MustBeOk(n int) {
	if n >= 0 && n <= 256 {
		return // small requests are not checked by the real guard either (literals, argument lists)
	}
	verifGuarded = int64(n)
	panic("verif: stop at guard")
}

// verifMul128 returns a*b exactly as (hi, lo) for non-negative a, b (schoolbook on 32-bit halves).
func verifMulFits(a, b int64, limit int64) bool {
	// a*b <= limit without overflow, for a,b >= 0, limit >= 0
	if a == 0 || b == 0 {
		return true
	}
	return a <= limit/b
}

// VerifGuardSize: an operator that grows a container either refuses (error / guard panic) or returns exactly
// the mathematically expected number of elements, which fits the budget. args: op, operand length L
//   op: arrmul (array * n), strmul (string * n), range (a:b), arradd (array + array of length n)
func VerifGuardSize(args []string) {
	op, L := args[0], verifAtoi(args[1])
	verifFree = vInt64("free")
	vAssume(verifFree <= 1<<40) // a process memory limit is configured (premise of the property): at most 1 TiB free
	s, _ := verifNewState(false)
	n := vInt64("n")
	s.env.SetNoChecks("n", object.Integer{Value: n}, true)
	var code string
	switch op {
	case "arrmul":
		code = verifArrayText(L) + " * n"
		s.env.SetNoChecks("d", object.Integer{Value: 1}, true)
	case "strmul":
		code = `"` + strings.Repeat("x", L) + `" * n`
	case "arrmulguard":
		// what does the guard get to see?
		s.env.SetNoChecks("d", object.Integer{Value: 1}, true)
		verifRunOne(s, "arr = "+verifArrayText(L)) // built before the probe is switched on
		code = "arr * n"
		vStubOn("object.MustBeOk")
		verifGuarded = -1
	case "range":
		m := vInt64("m")
		s.env.SetNoChecks("m", object.Integer{Value: m}, true)
		code = "m:n"
	}
	prog, ok := verifParse(code)
	if !ok {
		return
	}
	guard := false
	var res object.Object
	func() {
		defer func() {
			if r := recover(); r != nil {
				if verifIsGuard(r) {
					guard = true
					return
				}
				if msg, ok := r.(string); ok && msg == "verif: stop at guard" {
					guard = true
					return
				}
				panic(r)
			}
		}()
		res = s.Eval(prog)
	}()
	if op == "arrmulguard" {
		if !guard {
			vReach("no guard on this path")
			// an unguarded result must be small (empty operand or an error)
			vAssert(res.Type() == object.ERROR || object.Len(res) <= 256, "guard/large-result-built-without-guard")
			return
		}
		vReach("guard reached")
		// the quantity handed to the guard is the exact mathematical size of the result
		vAssert(n >= 0, "guard/negative-count-reaches-guard")
		vAssert(verifMulFits(int64(L), n, 1<<63-1), "guard/guarded-size-wrapped")
		if verifMulFits(int64(L), n, 1<<63-1) {
			vAssert(verifGuarded == int64(L)*n, "guard/guarded-size-is-exact-product")
		}
		return
	}
	if guard {
		vReach("refused by the memory guard")
		return
	}
	if res.Type() == object.ERROR {
		vReach("refused with an error")
		return
	}
	vReach("result built")
	got := int64(object.Len(res))
	switch op {
	case "arrmul", "strmul":
		vAssert(n >= 0, "guard/negative-count-accepted")
		vAssert(verifMulFits(int64(L), n, 1<<40), "guard/result-size-overflows")
		if verifMulFits(int64(L), n, 1<<40) {
			exact := int64(L) * n
			vAssert(got == exact, "guard/result-size-is-exact-product")
			if op == "arrmul" && exact > 256 {
				vAssert(exact < verifFree/16, "guard/result-exceeds-free-memory")
			}
		}
	case "range":
		mv, _ := Int64Value(verifGet(s, "m"))
		vAssert(got == 0 || (n >= mv && n-mv >= 0 && got == n-mv), "guard/range-size-is-exact-difference")
	}
}

// model context: Err() turns non-nil at the k-th call (the cancellation instant is a variable)
type verifCtx struct {
	calls, k, after int
}

func (c *verifCtx) Deadline() (time.Time, bool) { return time.Time{}, false }
func (c *verifCtx) Done() <-chan struct{}         { return nil }
func (c *verifCtx) Value(key any) any             { return nil }
func (c *verifCtx) Err() error {
	c.calls++
	if c.calls > c.k {
		c.after++
		return errVerif
	}
	return nil
}

var errVerif = errors.New("x")

// VerifCancel: once the context is cancelled, evaluation stops: an error comes back, nothing more is printed,
// and only a bounded number of further evaluation steps happen. args: program, maxK
func VerifCancel(args []string) {
	code, maxK := args[0], verifAtoi(args[1])
	s, out := verifNewState(false)
	prog, ok := verifParse(code)
	if !ok {
		return
	}
	// reference run without cancellation: total number of context checks and full output
	ref := &verifCtx{k: maxK + 300}
	s.Context = ref
	full := verifRunProg(s, prog)
	fullOut := out.String()
	total := ref.calls
	if full.panics != "" && !strings.HasPrefix(full.panics, "max depth") {
		return
	}
	k := vRange("k", 0, maxK)
	if k >= total {
		vReach("cancellation after the end")
		return
	}
	s2, out2 := verifNewState(false)
	c := &verifCtx{k: k}
	s2.Context = c
	o := verifRunProg(s2, prog)
	vReach("cancelled during evaluation")
	vAssert(o.panics == "", "cancel/no-panic")
	vAssert(o.isErr, "cancel/returns-an-error")
	got := out2.String()
	vAssert(len(got) <= len(fullOut) && fullOut[:len(got)] == got, "cancel/output-is-a-prefix-of-the-uncancelled-run")
	// every evaluation step after the instant returns immediately: the number of further checks is bounded by the nesting
	vAssert(c.after <= 64, "cancel/evaluation-continues-after-cancellation")
}

func verifRunProg(s *State, prog any) (o verifOutcome) {
	defer func() {
		if r := recover(); r != nil {
			switch e := r.(type) {
			case string:
				o.panics = verifNormPanic(e)
			case error:
				o.panics = verifNormPanic(e.Error())
			default:
				panic(r)
			}
			s.Reset()
		}
	}()
	r := object.Value(s.Eval(prog))
	o.res = r
	o.isErr = r != nil && r.Type() == object.ERROR
	return
}

// VerifDepth: recursion beyond MaxDepth is reported as the recoverable 'max depth' failure, exactly when the
// nesting exceeds the limit, and the depth counter is back to zero after a completed evaluation.
// args: program using k0 as recursion depth, lo, hi (MaxDepth range)
func VerifDepth(args []string) {
	code, lo, hi := args[0], verifAtoi(args[1]), verifAtoi(args[2])
	s, _ := verifNewState(false)
	s.MaxDepth = vRange("maxdepth", lo, hi)
	k := vRange("k0", 0, hi)
	s.env.SetNoChecks("k0", object.Integer{Value: int64(k)}, true)
	prog, ok := verifParse(code)
	if !ok {
		return
	}
	o := verifRunProg(s, prog)
	if o.panics != "" {
		vAssert(strings.HasPrefix(o.panics, "max depth"), "depth/only-the-documented-failure")
		vReach("max depth reported")
		// a shallower limit can only fail earlier: the same program with a larger limit and the same k...
		return
	}
	vReach("completed within the limit")
	vAssert(s.depth == 0, "depth/counter-balanced-after-completion")
	// monotonic: if it completed with this limit it completes with a larger one
	s2, _ := verifNewState(false)
	s2.MaxDepth = s.MaxDepth + 7
	s2.env.SetNoChecks("k0", object.Integer{Value: int64(k)}, true)
	o2 := verifRunProg(s2, prog)
	vAssert(o2.panics == "", "depth/larger-limit-still-completes")
}

func init() {
	verifHarness["VerifCancelAtOutput"] = VerifCancelAtOutput
}

// verifCancelWriter cancels the context the moment the k-th line has been written: a clock the evaluator does
// not control (VerifCancel's clock is the number of context checks, which the evaluator decides itself).
type verifCancelWriter struct {
	sb    strings.Builder
	lines int
	k     int
	ctx   *verifFlagCtx
}

func (w *verifCancelWriter) Write(p []byte) (int, error) {
	for _, c := range p {
		if c == '\n' {
			w.lines++
		}
	}
	if w.lines >= w.k {
		w.ctx.cancelled = true
	}
	return w.sb.Write(p)
}

type verifFlagCtx struct {
	cancelled bool
	checks    int
}

func (c *verifFlagCtx) Deadline() (time.Time, bool) { return time.Time{}, false }
func (c *verifFlagCtx) Done() <-chan struct{}         { return nil }
func (c *verifFlagCtx) Value(key any) any             { return nil }
func (c *verifFlagCtx) Err() error {
	c.checks++
	if c.cancelled {
		return errVerif
	}
	return nil
}

// VerifCancelAtOutput: when the context is cancelled right after the program printed its k-th line (top-level
// prints, unbuffered), evaluation stops before it prints another line and returns an error. args: program, maxK
func VerifCancelAtOutput(args []string) {
	code, maxK := args[0], verifAtoi(args[1])
	prog, ok := verifParse(code)
	if !ok {
		return
	}
	s, out := verifNewState(false)
	s.Context = &verifFlagCtx{}
	full := verifRunProg(s, prog)
	if full.panics != "" || full.isErr {
		return
	}
	total := strings.Count(out.String(), "\n")
	k := vRange("k", 1, maxK)
	if k >= total {
		vReach("cancellation at or after the last line")
		return
	}
	s2, _ := verifNewState(false)
	ctx := &verifFlagCtx{}
	w := &verifCancelWriter{k: k, ctx: ctx}
	s2.Out, s2.LogOut, s2.Context = w, w, ctx
	o := verifRunProg(s2, prog)
	vReach("cancelled after a printed line")
	vAssert(o.panics == "", "cancel-at-output/no-panic")
	vAssert(o.isErr, "cancel-at-output/returns-an-error")
	vAssert(w.lines == k, "cancel-at-output/lines-printed-after-cancellation")
}
