//go:build verif

package eval

// Independent reference evaluator for the core language (DESIGN Appendix B). It never sees grol's lexer,
// parser or AST: programs come as S-expressions produced by the driver together with the grol source text.
//
//   expr ::= int | (f 1.5) | true | false | nil | (s "text") | name
//          | (OP e e) for OP in + - * / % < <= > >= == != & | ^ << >>   | (and e e) | (or e e)
//          | (neg e) | (not e) | (bnot e)
//          | (set name e) | (def name e) | (inc name) | (dec name) | (preinc name) | (predec name)
//          | (idx e e) | (slice e e e) | (sliceopen e e) | (setidx name e e)
//          | (arr e...) | (map (e e)...) | (len e) | (first e) | (rest e)
//          | (if e block [block]) | (while e block) | (times e block) | (fori name e block) | (forr name e e block)
//          | (forin name e block) | (break) | (continue) | (return [e])
//          | (fn name|_ (params...) block) | (lam (params...) block) | (call e e...)
//          | (print e...) | (println e...) | (error e) | (catch e)
//   block ::= (do e...)

import (
	"strconv"
	"strings"

	"grol.io/grol/object"
)

func init() {
	verifHarness["VerifRefEval"] = VerifRefEval
}

// ---- S-expressions

type sx struct {
	atom string
	str  bool
	list []*sx
}

func sxParse(src string) *sx {
	pos := 0
	var parse func() *sx
	skip := func() {
		for pos < len(src) && (src[pos] == ' ' || src[pos] == '\n') {
			pos++
		}
	}
	parse = func() *sx {
		skip()
		if pos >= len(src) {
			return nil
		}
		switch src[pos] {
		case '(':
			pos++
			n := &sx{list: []*sx{}}
			for {
				skip()
				if pos >= len(src) {
					return n
				}
				if src[pos] == ')' {
					pos++
					return n
				}
				n.list = append(n.list, parse())
			}
		case '"':
			pos++
			start := pos
			for pos < len(src) && src[pos] != '"' {
				pos++
			}
			n := &sx{atom: src[start:pos], str: true}
			pos++
			return n
		}
		start := pos
		for pos < len(src) && src[pos] != ' ' && src[pos] != '\n' && src[pos] != '(' && src[pos] != ')' {
			pos++
		}
		return &sx{atom: src[start:pos]}
	}
	return parse()
}

// ---- reference values

type rkind int

const (
	rNil rkind = iota
	rInt
	rFloat
	rBool
	rStr
	rArr
	rMap
	rFn
	rErr
)

type rval struct {
	k   rkind
	i   int64
	f   float64
	b   bool
	s   string
	arr []rval
	mk  []rval // map keys (kept in key order; integer and string keys only)
	mv  []rval
	fn  *rfunc
}

type rfunc struct {
	name     string
	params   []string
	variadic bool
	body     *sx
	env      *renv
	text     *sx // identity of the function text (recursion sees the caller's frame)
}

type renv struct {
	vars  map[string]*rval
	outer *renv
	fn    *rfunc
}

func (e *renv) lookup(name string) (*rval, bool) {
	for c := e; c != nil; c = c.outer {
		if v, ok := c.vars[name]; ok {
			return v, true
		}
		if c.fn != nil && (name == "self" || (c.fn.name != "" && name == c.fn.name)) {
			return &rval{k: rFn, fn: c.fn}, true
		}
	}
	return nil, false
}

type rctl int

const (
	cNone rctl = iota
	cBreak
	cContinue
	cReturn
	cError
)

type rstate struct {
	out   strings.Builder
	ctl   rctl
	ret   rval
	err   string
	depth int
	abort bool // the reference declines (construct or situation outside the documented core)
}

func rInspect(v rval) string {
	switch v.k {
	case rNil:
		return "nil"
	case rInt:
		return strconv.FormatInt(v.i, 10)
	case rFloat:
		return strconv.FormatFloat(v.f, 'g', -1, 64)
	case rBool:
		if v.b {
			return "true"
		}
		return "false"
	case rStr:
		return strconv.Quote(v.s)
	case rArr:
		parts := make([]string, len(v.arr))
		for i, e := range v.arr {
			parts[i] = rInspect(e)
		}
		return "[" + strings.Join(parts, ",") + "]"
	case rMap:
		parts := make([]string, len(v.mk))
		for i := range v.mk {
			parts[i] = rInspect(v.mk[i]) + ":" + rInspect(v.mv[i])
		}
		return "{" + strings.Join(parts, ",") + "}"
	}
	return "<fn>"
}

func rPrintForm(v rval) string {
	if v.k == rStr {
		return v.s
	}
	return rInspect(v)
}

func rEqual(a, b rval) bool {
	if a.k != b.k {
		return false
	}
	switch a.k {
	case rNil:
		return true
	case rInt:
		return a.i == b.i
	case rFloat:
		return a.f == b.f
	case rBool:
		return a.b == b.b
	case rStr:
		return a.s == b.s
	case rArr:
		if len(a.arr) != len(b.arr) {
			return false
		}
		for i := range a.arr {
			if !rEqual(a.arr[i], b.arr[i]) {
				return false
			}
		}
		return true
	case rMap:
		if len(a.mk) != len(b.mk) {
			return false
		}
		for i := range a.mk {
			if !rEqual(a.mk[i], b.mk[i]) || !rEqual(a.mv[i], b.mv[i]) {
				return false
			}
		}
		return true
	}
	return false
}

// rKeyLess orders map keys: integers before strings, each by value.
func rKeyLess(a, b rval) bool {
	if a.k != b.k {
		return a.k < b.k
	}
	if a.k == rInt {
		return a.i < b.i
	}
	return a.s < b.s
}

func (st *rstate) fail(msg string) rval {
	st.ctl, st.err = cError, msg
	return rval{k: rErr, s: msg}
}

func (st *rstate) decline() rval {
	st.abort = true
	st.ctl = cError
	return rval{k: rErr}
}

func rNum(v rval) (float64, bool) {
	switch v.k {
	case rInt:
		return float64(v.i), true
	case rFloat:
		return v.f, true
	}
	return 0, false
}

func (st *rstate) binop(op string, l, r rval) rval {
	switch op {
	case "==":
		return rval{k: rBool, b: rEqual(l, r)}
	case "!=":
		return rval{k: rBool, b: !rEqual(l, r)}
	}
	if l.k == rInt && r.k == rInt {
		a, b := l.i, r.i
		switch op {
		case "+":
			return rval{k: rInt, i: a + b}
		case "-":
			return rval{k: rInt, i: a - b}
		case "*":
			return rval{k: rInt, i: a * b}
		case "/":
			if b == 0 {
				return st.fail("division by zero")
			}
			return rval{k: rInt, i: a / b}
		case "%":
			if b == 0 {
				return st.fail("division by zero")
			}
			return rval{k: rInt, i: a % b}
		case "&":
			return rval{k: rInt, i: a & b}
		case "|":
			return rval{k: rInt, i: a | b}
		case "^":
			return rval{k: rInt, i: a ^ b}
		case "<<":
			if b < 0 {
				return st.fail("negative shift")
			}
			if b >= 64 {
				return rval{k: rInt}
			}
			return rval{k: rInt, i: a << uint(b)}
		case ">>":
			if b < 0 {
				return st.fail("negative shift")
			}
			if b >= 64 {
				return rval{k: rInt}
			}
			return rval{k: rInt, i: int64(uint64(a) >> uint(b))}
		case "<":
			return rval{k: rBool, b: a < b}
		case "<=":
			return rval{k: rBool, b: a <= b}
		case ">":
			return rval{k: rBool, b: a > b}
		case ">=":
			return rval{k: rBool, b: a >= b}
		}
	}
	if l.k == rStr && r.k == rStr {
		switch op {
		case "+":
			return rval{k: rStr, s: l.s + r.s}
		case "<":
			return rval{k: rBool, b: l.s < r.s}
		case ">":
			return rval{k: rBool, b: l.s > r.s}
		}
	}
	if l.k == rArr && op == "+" {
		out := append([]rval{}, l.arr...)
		if r.k == rArr {
			out = append(out, r.arr...)
		} else {
			out = append(out, r)
		}
		return rval{k: rArr, arr: out}
	}
	lf, lok := rNum(l)
	rf, rok := rNum(r)
	if lok && rok && (l.k == rFloat || r.k == rFloat) {
		switch op {
		case "+":
			return rval{k: rFloat, f: lf + rf}
		case "-":
			return rval{k: rFloat, f: lf - rf}
		case "*":
			return rval{k: rFloat, f: lf * rf}
		case "/":
			return rval{k: rFloat, f: lf / rf}
		}
	}
	return st.decline() // ill-typed or outside the core: C07's subject, not this reference's
}

func (st *rstate) block(b *sx, env *renv) rval {
	res := rval{}
	for _, e := range b.list[1:] {
		res = st.eval(e, env)
		if st.ctl != cNone {
			return res
		}
	}
	return res
}

func (e *renv) lookupVar(name string) (*rval, bool) {
	for c := e; c != nil; c = c.outer {
		if v, ok := c.vars[name]; ok {
			return v, true
		}
	}
	return nil, false
}

func rIndex(n int, i int64) (int, bool) {
	if i < 0 {
		i += int64(n)
	}
	if i < 0 || i >= int64(n) {
		return 0, false
	}
	return int(i), true
}

func (st *rstate) loopBody(b *sx, env *renv, last *rval) (stop bool) {
	v := st.block(b, env)
	switch st.ctl {
	case cBreak:
		st.ctl = cNone
		return true
	case cContinue:
		st.ctl = cNone
		return false
	case cReturn, cError:
		return true
	}
	*last = v
	return false
}

func (st *rstate) call(f *rfunc, args []rval, cur *renv) rval {
	st.depth++
	defer func() { st.depth-- }()
	if st.depth > 60 {
		return st.decline()
	}
	parent := f.env
	if cur.curFn() == f {
		// a function body run from a call of the very same function value (recursion) sees the caller's frame;
		// another closure made from the same text is another function
		parent = cur
	}
	env := &renv{vars: map[string]*rval{}, outer: parent, fn: f}
	params := f.params
	if f.variadic {
		params = params[:len(params)-1]
		if len(args) > 0 && args[len(args)-1].k == rArr {
			last := args[len(args)-1]
			args = append(append([]rval{}, args[:len(args)-1]...), last.arr...)
		}
		if len(args) < len(params) {
			return st.fail("wrong number of arguments")
		}
		extra := append([]rval{}, args[len(params):]...)
		env.vars[".."] = &rval{k: rArr, arr: extra}
		args = args[:len(params)]
	}
	if len(args) != len(params) {
		return st.fail("wrong number of arguments")
	}
	for i, p := range params {
		v := args[i]
		env.vars[p] = &v
	}
	res := st.block(f.body, env)
	if st.ctl == cReturn {
		st.ctl = cNone
		return st.ret
	}
	if st.ctl == cBreak || st.ctl == cContinue {
		return st.decline()
	}
	return res
}

// curFn is the function value whose body is running in this frame (nil at top level).
func (e *renv) curFn() *rfunc {
	if e != nil && e.fn != nil {
		return e.fn
	}
	return nil
}

func (e *renv) fnText() *sx {
	for c := e; c != nil; c = c.outer {
		if c.fn != nil {
			return c.fn.text
		}
	}
	return nil
}

func (st *rstate) eval(e *sx, env *renv) rval {
	if st.ctl != cNone {
		return rval{}
	}
	if e.list == nil {
		if e.str {
			return rval{k: rStr, s: e.atom}
		}
		switch e.atom {
		case "true":
			return rval{k: rBool, b: true}
		case "false":
			return rval{k: rBool, b: false}
		case "nil":
			return rval{}
		}
		if c := e.atom[0]; c >= '0' && c <= '9' || (c == '-' && len(e.atom) > 1) {
			n, _ := strconv.ParseInt(e.atom, 10, 64)
			return rval{k: rInt, i: n}
		}
		if p, ok := env.lookup(e.atom); ok {
			return *p
		}
		return st.fail("identifier not found")
	}
	head := e.list[0].atom
	a := e.list[1:]
	switch head {
	case "f":
		f, _ := strconv.ParseFloat(a[0].atom, 64)
		return rval{k: rFloat, f: f}
	case "s":
		return rval{k: rStr, s: a[0].atom}
	case "do":
		return st.block(e, env)
	case "+", "-", "*", "/", "%", "<", "<=", ">", ">=", "==", "!=", "&", "|", "^", "<<", ">>":
		l := st.eval(a[0], env)
		if st.ctl != cNone {
			return l
		}
		r := st.eval(a[1], env)
		if st.ctl != cNone {
			return r
		}
		return st.binop(head, l, r)
	case "and", "or":
		l := st.eval(a[0], env)
		if st.ctl != cNone {
			return l
		}
		if l.k != rBool {
			return st.decline()
		}
		if head == "and" && !l.b {
			return l
		}
		if head == "or" && l.b {
			return l
		}
		r := st.eval(a[1], env)
		if st.ctl != cNone {
			return r
		}
		if r.k != rBool {
			return st.decline()
		}
		return r
	case "neg":
		v := st.eval(a[0], env)
		if st.ctl != cNone {
			return v
		}
		switch v.k {
		case rInt:
			return rval{k: rInt, i: -v.i}
		case rFloat:
			return rval{k: rFloat, f: -v.f}
		}
		return st.decline()
	case "not":
		v := st.eval(a[0], env)
		if st.ctl != cNone {
			return v
		}
		if v.k == rBool {
			return rval{k: rBool, b: !v.b}
		}
		if v.k == rNil {
			return rval{k: rBool, b: true}
		}
		return st.decline()
	case "bnot":
		v := st.eval(a[0], env)
		if st.ctl != cNone {
			return v
		}
		if v.k != rInt {
			return st.decline()
		}
		return rval{k: rInt, i: ^v.i}
	case "set", "def":
		v := st.eval(a[1], env)
		if st.ctl != cNone {
			return v
		}
		name := a[0].atom
		if head == "def" {
			nv := v
			env.vars[name] = &nv
			return v
		}
		if q, found := env.lookupVar(name); found {
			*q = v
		} else {
			nv := v
			env.vars[name] = &nv
		}
		return v
	case "inc", "dec", "preinc", "predec":
		q, found := env.lookupVar(a[0].atom)
		if !found {
			return st.fail("identifier not found")
		}
		if q.k != rInt {
			return st.decline()
		}
		old := *q
		d := int64(1)
		if head == "dec" || head == "predec" {
			d = -1
		}
		q.i += d
		if head == "inc" || head == "dec" {
			return old
		}
		return *q
	case "arr":
		out := make([]rval, 0, len(a))
		for _, x := range a {
			v := st.eval(x, env)
			if st.ctl != cNone {
				return v
			}
			out = append(out, v)
		}
		return rval{k: rArr, arr: out}
	case "map":
		m := rval{k: rMap}
		for _, pair := range a {
			k := st.eval(pair.list[0], env)
			if st.ctl != cNone {
				return k
			}
			v := st.eval(pair.list[1], env)
			if st.ctl != cNone {
				return v
			}
			m = rMapSet(m, k, v)
		}
		return m
	case "len":
		v := st.eval(a[0], env)
		if st.ctl != cNone {
			return v
		}
		switch v.k {
		case rStr:
			return rval{k: rInt, i: int64(len(v.s))}
		case rArr:
			return rval{k: rInt, i: int64(len(v.arr))}
		case rMap:
			return rval{k: rInt, i: int64(len(v.mk))}
		case rNil:
			return rval{k: rInt}
		}
		return st.decline()
	case "first":
		v := st.eval(a[0], env)
		if st.ctl != cNone {
			return v
		}
		if v.k == rArr {
			if len(v.arr) == 0 {
				return rval{}
			}
			return v.arr[0]
		}
		if v.k == rStr { // strings are sequences of runes
			rs := []rune(v.s)
			if len(rs) == 0 {
				return rval{}
			}
			return rval{k: rStr, s: string(rs[:1])}
		}
		return st.decline()
	case "rest":
		v := st.eval(a[0], env)
		if st.ctl != cNone {
			return v
		}
		if v.k == rArr {
			if len(v.arr) <= 1 {
				return rval{}
			}
			return rval{k: rArr, arr: append([]rval{}, v.arr[1:]...)}
		}
		if v.k == rStr {
			rs := []rune(v.s)
			if len(rs) <= 1 {
				return rval{}
			}
			return rval{k: rStr, s: string(rs[1:])}
		}
		return st.decline()
	case "idx":
		c := st.eval(a[0], env)
		if st.ctl != cNone {
			return c
		}
		i := st.eval(a[1], env)
		if st.ctl != cNone {
			return i
		}
		switch c.k {
		case rArr:
			if i.k != rInt {
				return st.decline()
			}
			k, ok := rIndex(len(c.arr), i.i)
			if !ok {
				return rval{}
			}
			return c.arr[k]
		case rStr:
			if i.k != rInt {
				return st.decline()
			}
			k, ok := rIndex(len(c.s), i.i)
			if !ok {
				return rval{}
			}
			return rval{k: rInt, i: int64(c.s[k])}
		case rMap:
			for j := range c.mk {
				if rEqual(c.mk[j], i) {
					return c.mv[j]
				}
			}
			return rval{}
		case rNil:
			return rval{}
		}
		return st.decline()
	case "slice", "sliceopen":
		c := st.eval(a[0], env)
		if st.ctl != cNone {
			return c
		}
		lo := st.eval(a[1], env)
		if st.ctl != cNone {
			return lo
		}
		var n int64
		switch c.k {
		case rArr:
			n = int64(len(c.arr))
		case rStr:
			n = int64(len(c.s))
		default:
			return st.decline()
		}
		hiV := rval{k: rInt, i: n}
		if head == "slice" {
			hiV = st.eval(a[2], env)
			if st.ctl != cNone {
				return hiV
			}
		}
		if lo.k != rInt || hiV.k != rInt {
			return st.decline()
		}
		l, h := lo.i, hiV.i
		if l < 0 {
			l += n
		}
		if h < 0 && head == "slice" {
			h += n
		}
		if l > h {
			return st.fail("range index invalid")
		}
		clamp := func(x int64) int64 {
			if x < 0 {
				return 0
			}
			if x > n {
				return n
			}
			return x
		}
		l, h = clamp(l), clamp(h)
		if c.k == rStr {
			return rval{k: rStr, s: c.s[l:h]}
		}
		return rval{k: rArr, arr: append([]rval{}, c.arr[l:h]...)}
	case "setidx":
		q, found := env.lookupVar(a[0].atom)
		if !found {
			return st.fail("identifier not found")
		}
		i := st.eval(a[1], env)
		if st.ctl != cNone {
			return i
		}
		v := st.eval(a[2], env)
		if st.ctl != cNone {
			return v
		}
		switch q.k {
		case rArr:
			if i.k != rInt {
				return st.decline()
			}
			k, ok := rIndex(len(q.arr), i.i)
			if !ok {
				return st.fail("index assignment out of bounds")
			}
			na := append([]rval{}, q.arr...)
			na[k] = v
			q.arr = na
			return v
		case rMap:
			*q = rMapSet(*q, i, v)
			return v
		}
		return st.decline()
	case "if":
		c := st.eval(a[0], env)
		if st.ctl != cNone {
			return c
		}
		if c.k != rBool {
			return st.fail("condition is not a boolean")
		}
		if c.b {
			return st.block(a[1], env)
		}
		if len(a) > 2 {
			return st.block(a[2], env)
		}
		return rval{}
	case "while":
		last := rval{}
		for n := 0; ; n++ {
			if n > 40 {
				return st.decline()
			}
			c := st.eval(a[0], env)
			if st.ctl != cNone {
				return c
			}
			if c.k != rBool {
				return st.decline()
			}
			if !c.b {
				return last
			}
			// break and continue belong to this loop, as in the counted and list forms; return and errors go up
			v := st.block(a[1], env)
			if st.ctl == cBreak {
				st.ctl = cNone
				return last
			}
			if st.ctl == cContinue {
				st.ctl = cNone
				continue
			}
			if st.ctl != cNone {
				return v
			}
			last = v
		}
	case "times", "fori", "forr":
		var name string
		var from, to int64
		switch head {
		case "times":
			c := st.eval(a[0], env)
			if st.ctl != cNone {
				return c
			}
			if c.k != rInt {
				return st.decline()
			}
			to = c.i
		case "fori":
			name = a[0].atom
			c := st.eval(a[1], env)
			if st.ctl != cNone {
				return c
			}
			if c.k != rInt {
				return st.decline()
			}
			to = c.i
		case "forr":
			name = a[0].atom
			c1 := st.eval(a[1], env)
			if st.ctl != cNone {
				return c1
			}
			c2 := st.eval(a[2], env)
			if st.ctl != cNone {
				return c2
			}
			if c1.k != rInt || c2.k != rInt {
				return st.decline()
			}
			from, to = c1.i, c2.i
		}
		if to-from < 0 {
			return st.fail("for loop with negative count")
		}
		if to-from > 40 {
			return st.decline()
		}
		body := a[len(a)-1]
		last := rval{}
		for i := from; i < to; i++ {
			if name != "" {
				if q, found := env.lookupVar(name); found {
					*q = rval{k: rInt, i: i}
				} else {
					env.vars[name] = &rval{k: rInt, i: i}
				}
			}
			if st.loopBody(body, env, &last) {
				break
			}
		}
		if st.ctl != cNone {
			return rval{}
		}
		return last
	case "forin":
		name := a[0].atom
		c := st.eval(a[1], env)
		if st.ctl != cNone {
			return c
		}
		if c.k != rArr {
			return st.decline()
		}
		last := rval{}
		for _, el := range c.arr {
			if q, found := env.lookupVar(name); found {
				*q = el
			} else {
				nv := el
				env.vars[name] = &nv
			}
			if st.loopBody(a[2], env, &last) {
				break
			}
		}
		if st.ctl != cNone {
			return rval{}
		}
		return last
	case "break":
		st.ctl = cBreak
		return rval{}
	case "continue":
		st.ctl = cContinue
		return rval{}
	case "return":
		v := rval{}
		if len(a) > 0 {
			v = st.eval(a[0], env)
			if st.ctl != cNone {
				return v
			}
		}
		st.ctl, st.ret = cReturn, v
		return v
	case "fn", "lam":
		f := &rfunc{env: env, text: e}
		ps := a[0]
		if head == "fn" {
			if a[0].atom != "_" {
				f.name = a[0].atom
			}
			ps = a[1]
			f.body = a[2]
		} else {
			f.body = a[1]
		}
		for _, p := range ps.list {
			f.params = append(f.params, p.atom)
		}
		if n := len(f.params); n > 0 && f.params[n-1] == ".." {
			f.variadic = true
		}
		v := rval{k: rFn, fn: f}
		if f.name != "" {
			if q, found := env.lookupVar(f.name); found {
				*q = v
			} else {
				nv := v
				env.vars[f.name] = &nv
			}
		}
		return v
	case "call":
		fv := st.eval(a[0], env)
		if st.ctl != cNone {
			return fv
		}
		args := make([]rval, 0, len(a)-1)
		for _, x := range a[1:] {
			v := st.eval(x, env)
			if st.ctl != cNone {
				return v
			}
			args = append(args, v)
		}
		if fv.k != rFn {
			return st.fail("not a function")
		}
		return st.call(fv.fn, args, env)
	case "print", "println":
		parts := make([]string, 0, len(a))
		for _, x := range a {
			v := st.eval(x, env)
			if st.ctl != cNone {
				return v
			}
			parts = append(parts, rPrintForm(v))
		}
		st.out.WriteString(strings.Join(parts, " "))
		if head == "println" {
			st.out.WriteString("\n")
		}
		return rval{}
	case "error":
		v := st.eval(a[0], env)
		if st.ctl != cNone {
			return v
		}
		return st.fail(rPrintForm(v))
	case "catch":
		v := st.eval(a[0], env)
		if st.abort {
			return v
		}
		if st.ctl == cError {
			st.ctl = cNone
			return rval{k: rMap, mk: []rval{{k: rStr, s: "err"}, {k: rStr, s: "value"}}, mv: []rval{{k: rBool, b: true}, {k: rStr, s: st.err}}}
		}
		if st.ctl != cNone {
			return v
		}
		return rval{k: rMap, mk: []rval{{k: rStr, s: "err"}, {k: rStr, s: "value"}}, mv: []rval{{k: rBool, b: false}, v}}
	}
	return st.decline()
}

func rMapSet(m rval, k, v rval) rval {
	mk := append([]rval{}, m.mk...)
	mv := append([]rval{}, m.mv...)
	for i := range mk {
		if rEqual(mk[i], k) {
			mv[i] = v
			return rval{k: rMap, mk: mk, mv: mv}
		}
	}
	pos := len(mk)
	for i := range mk {
		if rKeyLess(k, mk[i]) {
			pos = i
			break
		}
	}
	mk = append(mk, rval{})
	mv = append(mv, rval{})
	copy(mk[pos+1:], mk[pos:])
	copy(mv[pos+1:], mv[pos:])
	mk[pos], mv[pos] = k, v
	return rval{k: rMap, mk: mk, mv: mv}
}

// rMatches compares a reference value with the real evaluator's object, structurally and by type.
func rMatches(r rval, o object.Object) bool {
	o = object.Value(o)
	switch r.k {
	case rNil:
		return o.Type() == object.NIL
	case rInt:
		v, ok := o.(object.Integer)
		return ok && v.Value == r.i
	case rFloat:
		v, ok := o.(object.Float)
		return ok && (v.Value == r.f || (v.Value != v.Value && r.f != r.f))
	case rBool:
		v, ok := o.(object.Boolean)
		return ok && v.Value == r.b
	case rStr:
		v, ok := o.(object.String)
		return ok && v.Value == r.s
	case rArr:
		if o.Type() != object.ARRAY || object.Len(o) != len(r.arr) {
			return false
		}
		for i, e := range object.Elements(o) {
			if !rMatches(r.arr[i], e) {
				return false
			}
		}
		return true
	case rMap:
		m, ok := o.(object.Map)
		if !ok || m.Len() != len(r.mk) {
			return false
		}
		for i := range r.mk {
			var key object.Object
			if r.mk[i].k == rInt {
				key = object.Integer{Value: r.mk[i].i}
			} else {
				key = object.String{Value: r.mk[i].s}
			}
			v, found := m.Get(key)
			if !found || !rMatches(r.mv[i], v) {
				return false
			}
		}
		return true
	case rFn:
		return o.Type() == object.FUNC
	}
	return false
}

// VerifRefEval: the real pipeline (lexer, parser, evaluator) and the reference evaluator agree on printed
// output, final value and error outcome, for every value of the free integer variables a, b, c.
// args: grol source, S-expression of the same program, reg|noreg
func VerifRefEval(args []string) {
	src, sexpr := args[0], args[1]
	s, out := verifNewState(len(args) > 2 && args[2] == "noreg")
	s.MaxDepth = 400
	root := &renv{vars: map[string]*rval{}}
	for _, n := range []string{"a", "b", "c"} {
		if verifUsesIdent(src, n) {
			v := vInt64(n)
			vAssume(v > -1000 && v < 1000) // loop counts and recursion depths derive from these
			s.env.SetNoChecks(n, object.Integer{Value: v}, true)
			root.vars[n] = &rval{k: rInt, i: v}
		}
	}
	st := &rstate{}
	want := st.block(&sx{list: append([]*sx{{atom: "do"}}, sxParse("("+sexpr+")").list...)}, root)
	if st.abort {
		vReach("reference declines (outside the documented core for these values)")
		return
	}
	if st.ctl == cReturn {
		want, st.ctl = st.ret, cNone // return at top level ends the input
	}
	o := verifRunOne(s, src)
	o.out = out.String()
	vReach("compared with the reference")
	vAssert(o.panics == "", "reference/real-evaluator-panics")
	if o.panics != "" {
		return
	}
	vAssert(o.isErr == (st.ctl == cError), "reference/error-outcome")
	vAssert(o.out == st.out.String(), "reference/printed-output")
	if !o.isErr && st.ctl != cError {
		vAssert(rMatches(want, o.res), "reference/final-value")
	}
}
