//go:build verif

package eval

import (
	"io"
	"strings"

	"grol.io/grol/ast"
	"grol.io/grol/lexer"
	"grol.io/grol/object"
	"grol.io/grol/parser"
)

func verifAtoi(s string) int {
	n, neg := 0, false
	for _, c := range s {
		if c == '-' {
			neg = true
			continue
		}
		n = n*10 + int(c-'0')
	}
	if neg {
		return -n
	}
	return n
}

// verifNewState returns a fresh interpreter state writing to a buffer.
func verifNewState(noReg bool) (*State, *strings.Builder) {
	s := NewState()
	out := &strings.Builder{}
	s.Out = out
	s.LogOut = out
	s.NoLog = true
	s.NoReg = noReg
	// extensions.Init (which this package cannot import) defines nil; the native test binary has it through
	// the external test package, the symbolic run gets it here
	if _, ok := s.env.Get("nil"); !ok {
		s.env.SetNoChecks("nil", object.NULL, true)
	}
	return s, out
}

// verifBind binds the free variables used by skeleton programs to symbolic values:
// a b c Integer, x y Float, p q Boolean, s String of 2 arbitrary bytes.
func verifBind(s *State, code string) {
	has := func(name string) bool { return verifUsesIdent(code, name) }
	for _, n := range []string{"a", "b", "c", "d"} {
		if has(n) {
			s.env.SetNoChecks(n, object.Integer{Value: vInt64(n)}, true)
		}
	}
	for _, n := range []string{"x", "y"} {
		if has(n) {
			s.env.SetNoChecks(n, object.Float{Value: vFloat64(n)}, true)
		}
	}
	for _, n := range []string{"p", "q"} {
		if has(n) {
			s.env.SetNoChecks(n, object.NativeBoolToBooleanObject(vBool(n)), true)
		}
	}
	if has("s") {
		s.env.SetNoChecks("s", object.String{Value: string([]byte{vByte("s"), vByte("s")})}, true)
	}
}

func verifIsIdentByte(c byte) bool {
	return c >= 'a' && c <= 'z' || c >= 'A' && c <= 'Z' || c >= '0' && c <= '9' || c == '_'
}

// verifUsesIdent reports whether name occurs in code as a whole identifier.
func verifUsesIdent(code, name string) bool {
	for i := 0; i+len(name) <= len(code); i++ {
		if code[i:i+len(name)] != name {
			continue
		}
		if i > 0 && (verifIsIdentByte(code[i-1]) || code[i-1] == '.') {
			continue
		}
		if i+len(name) < len(code) && verifIsIdentByte(code[i+len(name)]) {
			continue
		}
		return true
	}
	return false
}

// verifParse parses a complete program; ok=false on parse errors.
func verifParse(code string) (ast.Node, bool) {
	p := parser.New(lexer.New(code))
	prog := p.ParseProgram()
	if len(p.Errors()) != 0 {
		return nil, false
	}
	return prog, true
}

// verifIsGuard recognises the two documented resource-guard panics.
func verifIsGuard(r any) bool {
	msg, ok := r.(string)
	if !ok {
		return false
	}
	if strings.HasPrefix(msg, "max depth 0 ") {
		return false // an evaluation state without a depth limit set up is a defect, not the documented guard
	}
	return strings.HasPrefix(msg, "max depth") || strings.HasPrefix(msg, "would exceed memory")
}

// verifEval evaluates a parsed program like EvalString does (macros expanded first).
func verifEval(s *State, prog ast.Node) object.Object {
	s.DefineMacros(prog)
	if s.NumMacros() > 0 {
		prog = s.ExpandMacros(prog)
	}
	return s.Eval(prog)
}

// VerifBindInt binds name to an integer in the root environment (used by harnesses of other packages).
func VerifBindInt(s *State, name string, v int64) {
	s.env.SetNoChecks(name, object.Integer{Value: v}, true)
}

// VerifAtTopLevel reports what in the interpreter state is not "back at the top level" between two inputs
// (C10: scope, recursion depth and the output writer start from the top level again); "" when all is.
func VerifAtTopLevel(s *State, out io.Writer) string {
	switch {
	case s.env != s.rootEnv:
		return "current-scope-is-not-the-root-scope"
	case s.depth != 0:
		return "depth-is-not-zero"
	case s.outDepth != 0:
		return "output-capture-depth-is-not-zero"
	case s.Out != out:
		return "output-writer-was-replaced"
	case object.VerifNumReg(s.rootEnv) != 0:
		return "root-scope-still-holds-registers"
	case s.macroDepth != 0:
		return "macro-nesting-count-is-not-zero"
	}
	return ""
}

// VerifBind binds name to a value in the current (root) environment (used by harnesses of other packages, which
// draw their own nondeterministic values).
func VerifBind(s *State, name string, v object.Object) { s.env.SetNoChecks(name, v, true) }

// VerifIsGuard exports the classification of the two documented resource-guard panics.
func VerifIsGuard(r any) bool { return verifIsGuard(r) }

// VerifEval exports verifEval (macros expanded first, like EvalString).
func VerifEval(s *State, prog ast.Node) object.Object { return verifEval(s, prog) }

// VerifUsesIdent exports verifUsesIdent.
func VerifUsesIdent(code, name string) bool { return verifUsesIdent(code, name) }

// VerifGlobalKinds lists the names bound at top level with "func" or "var".
func VerifGlobalKinds(s *State) map[string]string {
	res := map[string]string{}
	for name, v := range s.rootEnv.RootStore() {
		if object.Value(v).Type() == object.FUNC {
			res[name] = "func"
		} else {
			res[name] = "var"
		}
	}
	return res
}
