//go:build verif

package eval

import (
	"strings"

	"grol.io/grol/object"
)

// verifErrText makes verifSameOutcome compare the text of errors too (C04 and C05: "errors are identical"; the other
// users compare programs whose error messages legitimately quote different program text).
var verifErrText bool

// verifCacheOff is the C04 switch read by the overlay-rewritten eval/memo.go (Cache.Get misses, Cache.Set stores nothing).
var verifCacheOff bool

func init() {
	verifHarness["VerifRegDiff"] = VerifRegDiff
	verifHarness["VerifCacheDiff"] = VerifCacheDiff
}

// verifVals creates one symbolic value per free variable used by the session (shared by both configurations).
func verifVals(session []string) map[string]object.Object {
	all := strings.Join(session, "\n")
	vals := map[string]object.Object{}
	for _, n := range []string{"a", "b", "c", "d"} {
		if verifUsesIdent(all, n) {
			vals[n] = object.Integer{Value: vInt64(n)}
		}
	}
	for _, n := range []string{"x", "y"} {
		if verifUsesIdent(all, n) {
			vals[n] = object.Float{Value: vFloat64(n)}
		}
	}
	for _, n := range []string{"p", "q"} {
		if verifUsesIdent(all, n) {
			vals[n] = object.NativeBoolToBooleanObject(vBool(n))
		}
	}
	if verifUsesIdent(all, "s") {
		vals["s"] = object.String{Value: string([]byte{vByte("s"), vByte("s")})}
	}
	return vals
}

// small symbolic ranges used as loop bounds / exit iterations: k0..k3 in 0..3
func verifSmallVals(session []string, vals map[string]object.Object) {
	all := strings.Join(session, "\n")
	for _, n := range []string{"k0", "k1", "k2", "k3"} {
		if verifUsesIdent(all, n) {
			v := vInt64(n)
			vAssume(v >= 0 && v <= 3)
			vals[n] = object.Integer{Value: v}
		}
	}
}

type verifOutcome struct {
	out    string
	res    object.Object
	isErr  bool
	panics string
}

// verifRunSession evaluates the inputs one after the other on one persistent state.
func verifRunSession(s *State, out *strings.Builder, vals map[string]object.Object, session []string) []verifOutcome {
	for _, n := range []string{"a", "b", "c", "d", "x", "y", "p", "q", "s", "k0", "k1", "k2", "k3"} {
		if v, ok := vals[n]; ok {
			s.env.SetNoChecks(n, v, true)
		}
	}
	res := make([]verifOutcome, len(session))
	for i, code := range session {
		out.Reset()
		res[i] = verifRunOne(s, code)
		res[i].out = out.String()
	}
	return res
}

func verifRunOne(s *State, code string) (o verifOutcome) {
	prog, ok := verifParse(code)
	if !ok {
		o.panics = "parse error"
		return
	}
	defer func() {
		if r := recover(); r != nil {
			switch e := r.(type) {
			case string:
				o.panics = verifNormPanic(e)
			case error:
				o.panics = verifNormPanic(e.Error())
			default:
				panic(r) // replay sentinels (assume/assert) must pass through
			}
			// what repl.EvalOne does after a panic
			s.Reset()
		}
	}()
	r := object.Value(verifEval(s, prog))
	o.res = r
	o.isErr = r != nil && r.Type() == object.ERROR
	return
}

// verifSameOutcome asserts that two configurations are indistinguishable on one input.
func verifSameOutcome(a, b verifOutcome, label string) {
	vAssert(a.panics == b.panics, label+"/panic")
	if a.panics != "" || b.panics != "" {
		return
	}
	vAssert(a.out == b.out, label+"/printed-output")
	vAssert(a.isErr == b.isErr, label+"/error-outcome")
	if verifErrText && a.isErr && b.isErr {
		vAssert(a.res.Inspect() == b.res.Inspect(), label+"/error-text")
	}
	if a.isErr || b.isErr || a.res == nil || b.res == nil {
		return
	}
	vAssert(a.res.Type() == b.res.Type(), label+"/result-type")
	if a.res.Type() == b.res.Type() {
		vAssert(object.Equals(a.res, b.res) || verifBothNaN(a.res, b.res), label+"/result-value")
	}
}

func verifBothNaN(a, b object.Object) bool {
	fa, ok1 := a.(object.Float)
	fb, ok2 := b.(object.Float)
	return ok1 && ok2 && fa.Value != fa.Value && fb.Value != fb.Value
}

// VerifRegDiff: the session behaves the same with the register optimisation on and off. args: inputs...
func VerifRegDiff(args []string) {
	verifErrText = true
	vals := verifVals(args)
	verifSmallVals(args, vals)
	s1, o1 := verifNewState(false)
	s2, o2 := verifNewState(true)
	s1.MaxDepth, s2.MaxDepth = 80, 80
	r1 := verifRunSession(s1, o1, vals, args)
	r2 := verifRunSession(s2, o2, vals, args)
	at := "#" + strings.ReplaceAll(strings.Join(args, " | "), "\n", " ")
	if len(at) > 140 {
		at = at[:140]
	}
	for i := range args {
		verifSameOutcome(r1[i], r2[i], "registers"+at)
		if r1[i].panics == "" && !r1[i].isErr {
			vReach("input completed")
		}
	}
}

// VerifCacheDiff: the session behaves the same with memoization on and off. args: inputs...
func VerifCacheDiff(args []string) {
	verifErrText = true
	// vacuity probe: the switch really disables the cache
	verifCacheOff = true
	ps, po := verifNewState(false)
	verifRunOne(ps, `func probe(u){print("x");u}; probe(1); probe(1)`)
	if po.String() == "xx" {
		vReach("cache switch effective")
	}
	verifCacheOff = false
	vals := verifVals(args)
	verifSmallVals(args, vals)
	s1, o1 := verifNewState(false)
	s1.MaxDepth = 80
	r1 := verifRunSession(s1, o1, vals, args)
	verifCacheOff = true
	s2, o2 := verifNewState(false)
	s2.MaxDepth = 80
	r2 := verifRunSession(s2, o2, vals, args)
	verifCacheOff = false
	// the label names the session (its last 140 bytes: the menu sessions share a long first input)
	at := strings.ReplaceAll(strings.Join(args, " | "), "\n", " ")
	if len(at) > 140 {
		at = "..." + at[len(at)-140:]
	}
	for i := range args {
		verifSameOutcome(r1[i], r2[i], "memoization#"+at)
	}
}

// verifDiffOutcome is verifSameOutcome as a function: what differs between two configurations on one input ("" if nothing).
func verifDiffOutcome(a, b verifOutcome) string {
	if a.panics != b.panics {
		return "/panic"
	}
	if a.panics != "" {
		return ""
	}
	if a.out != b.out {
		return "/printed-output"
	}
	if a.isErr != b.isErr {
		return "/error-outcome"
	}
	if a.isErr && a.res.Inspect() != b.res.Inspect() {
		return "/error-text"
	}
	if a.isErr || a.res == nil || b.res == nil {
		return ""
	}
	if a.res.Type() != b.res.Type() {
		return "/result-type"
	}
	if !(object.Equals(a.res, b.res) || verifBothNaN(a.res, b.res)) {
		return "/result-value"
	}
	return ""
}

// VerifRegDiffVals is VerifRegDiff for the harnesses of other packages (which own the symbolic values and the
// assertions): it returns the labels of what differs between registers on and off, and how many inputs completed.
func VerifRegDiffVals(args []string, vals map[string]object.Object) (diffs []string, completed int) {
	s1, o1 := verifNewState(false)
	s2, o2 := verifNewState(true)
	s1.MaxDepth, s2.MaxDepth = 80, 80
	r1 := verifRunSession(s1, o1, vals, args)
	r2 := verifRunSession(s2, o2, vals, args)
	at := "#" + strings.ReplaceAll(strings.Join(args, " | "), "\n", " ")
	if len(at) > 140 {
		at = at[:140]
	}
	for i := range args {
		if d := verifDiffOutcome(r1[i], r2[i]); d != "" {
			diffs = append(diffs, "registers"+at+d)
		}
		if r1[i].panics == "" && !r1[i].isErr {
			completed++
		}
	}
	return diffs, completed
}
