//go:build verif

package eval

import "grol.io/grol/object"

func init() {
	verifHarness["VerifNoPanic"] = VerifNoPanic
}

// VerifNoPanic: evaluating the program ends in a value or an error object for every value of its free
// variables; the only panics are the two documented guards. args: code, reg|noreg
func VerifNoPanic(args []string) {
	code := args[0]
	s, _ := verifNewState(len(args) > 1 && args[1] == "noreg")
	s.MaxDepth = 60
	prog, ok := verifParse(code)
	if !ok {
		vReach("skeleton does not parse")
		return
	}
	verifBind(s, code)
	defer func() {
		if r := recover(); r != nil {
			if verifIsGuard(r) {
				vReach("resource guard")
				return
			}
			panic(r)
		}
	}()
	res := verifEval(s, prog)
	vAssert(res != nil, "result-is-a-value-or-error")
	if res != nil && res.Type() == object.ERROR {
		vReach("language-level error")
	} else {
		vReach("value")
	}
}
