//go:build verif

package eval

import (
	"strconv"
	"strings"

	"grol.io/grol/object"
)

func init() {
	verifHarness["VerifConstant"] = VerifConstant
	verifHarness["VerifAlias"] = VerifAlias
}

// verifDeepCopy copies a value structurally (independent backing storage).
func verifDeepCopy(o object.Object) object.Object {
	o = object.Value(o)
	switch o.Type() {
	case object.ARRAY:
		els := object.Elements(o)
		cp := make([]object.Object, len(els))
		for i, e := range els {
			cp[i] = verifDeepCopy(e)
		}
		return object.NewArray(cp)
	case object.MAP:
		m := o.(object.Map)
		res := object.NewMapSize(m.Len())
		for m.Len() > 0 {
			kv := m.First().(object.Map)
			k, _ := kv.Get(object.KeyKey)
			v, _ := kv.Get(object.ValueKey)
			res = res.Set(verifDeepCopy(k), verifDeepCopy(v))
			r := m.Rest()
			if r == object.NULL {
				break
			}
			m = r.(object.Map)
		}
		return res
	}
	return o
}

// verifSame is the harness's own strict structural identity: same type at every level (an Integer is not the
// Float of the same magnitude), floats with the same bits (so 0.0 is not -0.0) or both NaN, containers
// element by element. Functions compare by printed text here; VerifConstant also compares their behaviour.
func verifSame(a, b object.Object) bool {
	a, b = object.Value(a), object.Value(b)
	if a.Type() != b.Type() {
		return false
	}
	switch av := a.(type) {
	case object.Integer:
		return av.Value == b.(object.Integer).Value
	case object.Float:
		bv := b.(object.Float).Value
		if av.Value != av.Value || bv != bv {
			return av.Value != av.Value && bv != bv
		}
		return av.Value == bv && (1/av.Value > 0) == (1/bv > 0)
	case object.String:
		return av.Value == b.(object.String).Value
	}
	switch a.Type() {
	case object.ARRAY:
		ea, eb := object.Elements(a), object.Elements(b)
		if len(ea) != len(eb) {
			return false
		}
		for i := range ea {
			if !verifSame(ea[i], eb[i]) {
				return false
			}
		}
		return true
	case object.MAP:
		ma, mb := a.(object.Map), b.(object.Map)
		if ma.Len() != mb.Len() {
			return false
		}
		for ma.Len() > 0 {
			ka, kb := ma.First().(object.Map), mb.First().(object.Map)
			k1, _ := ka.Get(object.KeyKey)
			k2, _ := kb.Get(object.KeyKey)
			v1, _ := ka.Get(object.ValueKey)
			v2, _ := kb.Get(object.ValueKey)
			if !verifSame(k1, k2) || !verifSame(v1, v2) {
				return false
			}
			ra, rb := ma.Rest(), mb.Rest()
			if ra == object.NULL || rb == object.NULL {
				return ra == rb
			}
			ma, mb = ra.(object.Map), rb.(object.Map)
		}
		return true
	case object.FUNC:
		return a.Inspect() == b.Inspect()
	}
	return object.Equals(a, b)
}

// verifGet evaluates an identifier (nil when unbound).
func verifGet(s *State, name string) object.Object {
	o := verifRunOne(s, name)
	if o.panics != "" || o.isErr {
		return nil
	}
	return o.res
}

// verifArrayText / verifMapText build a literal of n elements whose first element is the symbolic d.
func verifArrayText(n int) string {
	var sb strings.Builder
	sb.WriteString("[")
	for i := 0; i < n; i++ {
		if i > 0 {
			sb.WriteString(",")
		}
		if i == 0 {
			sb.WriteString("d")
		} else {
			sb.WriteString(strconv.Itoa(i * 10))
		}
	}
	sb.WriteString("]")
	return sb.String()
}

func verifMapText(n int) string {
	var sb strings.Builder
	sb.WriteString("{")
	for i := 0; i < n; i++ {
		if i > 0 {
			sb.WriteString(",")
		}
		sb.WriteString(strconv.Itoa(i))
		sb.WriteString(":")
		if i == 0 {
			sb.WriteString("d")
		} else {
			sb.WriteString(strconv.Itoa(i * 10))
		}
	}
	sb.WriteString("}")
	return sb.String()
}

// VerifConstant: no mutation attempt changes what a constant evaluates to.
// args: init expression for K, mutation program, reg|noreg
func VerifConstant(args []string) {
	initE, mut := args[0], args[1]
	name := "K"
	if len(args) > 3 && args[3] != "" {
		name = args[3] // another spelling of a constant name: substituted for K as a whole word
		mut = verifReplaceIdent(mut, "K", name)
	}
	s, _ := verifNewState(len(args) > 2 && args[2] == "noreg")
	s.MaxDepth = 80
	all := []string{initE, mut}
	vals := verifVals(all)
	verifSmallVals(all, vals)
	session := []string{name + " = " + initE}
	r := verifRunSession(s, &strings.Builder{}, vals, session)
	if r[0].panics != "" || r[0].isErr {
		vReach("constant could not be created")
		return
	}
	snap := verifDeepCopy(verifGet(s, name))
	isFunc := snap != nil && snap.Type() == object.FUNC
	var callBefore verifOutcome
	if isFunc {
		callBefore = verifRunOne(s, name+"(1)")
	}
	o := verifRunOne(s, mut)
	if o.panics != "" {
		vReach("mutation attempt panicked")
	}
	if o.isErr {
		vReach("mutation attempt refused")
	}
	cur := verifGet(s, name)
	vAssert(cur != nil, "constant/still-bound")
	if cur == nil {
		return
	}
	vAssert(verifSame(cur, snap), "constant/value-unchanged")
	if isFunc && cur.Type() == object.FUNC {
		verifSameOutcome(callBefore, verifRunOne(s, name+"(1)"), "constant/function-behaves-as-before")
	}
}

// VerifAlias: operations through one binding never change what another binding evaluates to.
// args: kind(array|map) maxN setup-template mutate watch... ; "%C" in the setup is replaced by a container literal of n elements.
func VerifAlias(args []string) {
	kind, maxN, setup, mutate, watch := args[0], verifAtoi(args[1]), args[2], args[3], args[4:]
	n := vRange("n", 0, maxN)
	lit := verifArrayText(n)
	if kind == "map" {
		lit = verifMapText(n)
	}
	setup = strings.ReplaceAll(setup, "%C", lit)
	s, _ := verifNewState(false)
	s.MaxDepth = 80
	all := []string{setup, mutate}
	vals := verifVals(all)
	r := verifRunSession(s, &strings.Builder{}, vals, []string{setup})
	if r[0].panics != "" || r[0].isErr {
		vReach("setup failed")
		return
	}
	snaps := make([]object.Object, len(watch))
	for i, w := range watch {
		v := verifGet(s, w)
		if v == nil {
			vReach("watched name unbound")
			return
		}
		snaps[i] = verifDeepCopy(v)
	}
	o := verifRunOne(s, mutate)
	if o.panics == "" && !o.isErr {
		vReach("mutation applied")
	}
	small := n <= 8
	if kind == "map" {
		small = n <= 4
	}
	for i, w := range watch {
		cur := verifGet(s, w)
		vAssert(cur != nil, "alias/watched-binding-still-bound")
		if cur == nil {
			continue
		}
		if small {
			vAssert(verifSame(cur, snaps[i]), "alias/small-container/other-binding-unchanged")
		} else {
			vAssert(verifSame(cur, snaps[i]), "alias/large-container/other-binding-unchanged")
		}
	}
}

// verifReplaceIdent replaces the identifier old (as a whole word) by new in code.
func verifReplaceIdent(code, old, new string) string {
	var sb strings.Builder
	for i := 0; i < len(code); {
		if i+len(old) <= len(code) && code[i:i+len(old)] == old &&
			(i == 0 || !verifIsIdentByte(code[i-1])) && (i+len(old) == len(code) || !verifIsIdentByte(code[i+len(old)])) {
			sb.WriteString(new)
			i += len(old)
			continue
		}
		sb.WriteByte(code[i])
		i++
	}
	return sb.String()
}

func init() {
	verifHarness["VerifConstProgram"] = VerifConstProgram
}

// VerifConstProgram: a constant bound anywhere (inside a function, captured by closures, from a parameter) still
// evaluates to its original value after the program tried to change it. args: setup program, probe expression,
// expression of the expected value, reg|noreg
func VerifConstProgram(args []string) {
	setup, probe, expected := args[0], args[1], args[2]
	s, _ := verifNewState(len(args) > 3 && args[3] == "noreg")
	s.MaxDepth = 80
	all := []string{setup, probe, expected}
	vals := verifVals(all)
	verifSmallVals(all, vals)
	r := verifRunSession(s, &strings.Builder{}, vals, []string{setup})
	if r[0].panics != "" {
		vReach("setup panicked")
		return
	}
	got, want := verifGet(s, probe), verifGet(s, expected)
	vReach("constant probed")
	vAssert(got != nil && want != nil, "constant/probe-fails")
	if got != nil && want != nil {
		vAssert(verifSame(got, want), "constant/local-value-unchanged")
	}
}
