//go:build verif

package eval

import (
	"strings"

	"grol.io/grol/object"
)

func init() {
	verifHarness["VerifMapEval"] = VerifMapEval
}

type verifRefPair struct {
	k int64
	v string // value literal text
}

// reference finite map over integer keys (values are literal texts)
func verifRefSet(m []verifRefPair, k int64, v string) []verifRefPair {
	for i := range m {
		if m[i].k == k {
			m[i].v = v
			return m
		}
	}
	return append(m, verifRefPair{k, v})
}

func verifRefDel(m []verifRefPair, k int64) ([]verifRefPair, bool) {
	for i := range m {
		if m[i].k == k {
			return append(append([]verifRefPair{}, m[:i]...), m[i+1:]...), true
		}
	}
	return m, false
}

func verifRefGet(m []verifRefPair, k int64) string {
	for i := range m {
		if m[i].k == k {
			return m[i].v
		}
	}
	return "nil"
}

// VerifMapEval: map programs at the language level behave like a finite map whatever the values are (nil, zero,
// false and empty values included). args: value literals v1 v2 v3 (texts), operations (comma separated from:
// del, set, merge, delmissing), keys a b c symbolic (each in 0..4 so that they collide in every way)
func VerifMapEval(args []string) {
	v1, v2, v3, ops := args[0], args[1], args[2], strings.Split(args[3], ",")
	a, b, c := vInt64("a"), vInt64("b"), vInt64("c")
	vAssume(a >= 0 && a <= 4 && b >= 0 && b <= 4 && c >= 0 && c <= 4)
	s, _ := verifNewState(false)
	for n, v := range map[string]int64{"a": a, "b": b, "c": c} {
		s.env.SetNoChecks(n, object.Integer{Value: v}, true)
	}
	run := func(code string) verifOutcome { return verifRunOne(s, code) }
	same := func(got verifOutcome, lit, label string) {
		want := run(lit)
		verifSameOutcome(got, want, label)
	}
	o := run("m = {a: " + v1 + ", b: " + v2 + ", 9: 9, 8: 8, 7: 7}; mm = {a: " + v1 + ", b: " + v2 + "}")
	if o.isErr || o.panics != "" {
		vReach("literal rejected")
		return
	}
	ref := verifRefSet(verifRefSet(nil, a, v1), b, v2)
	for _, op := range ops {
		for _, name := range []string{"m", "mm"} { // a large and a small map with the same entries under a, b, c
			switch op {
			case "del":
				got := run("del(" + name + "[c])")
				_, was := verifRefDel(ref, c)
				lit := "false"
				if was {
					lit = "true"
				}
				same(got, lit, "mapeval/del-reports-presence")
			case "set":
				run(name + "[c] = " + v3)
			case "merge":
				run(name + " = " + name + " + {c: " + v3 + "}")
			}
		}
		switch op {
		case "del":
			ref, _ = verifRefDel(ref, c)
		case "set", "merge":
			ref = verifRefSet(ref, c, v3)
		}
		vReach("operation applied")
		for _, name := range []string{"m", "mm"} {
			extra := 0
			if name == "m" {
				extra = 3
			}
			same(run("len("+name+")"), itoa(len(ref)+extra), "mapeval/len")
			same(run(name+"[a]"), verifRefGet(ref, a), "mapeval/lookup")
			same(run(name+"[b]"), verifRefGet(ref, b), "mapeval/lookup")
			same(run(name+"[c]"), verifRefGet(ref, c), "mapeval/lookup")
		}
	}
}

func itoa(n int) string {
	if n == 0 {
		return "0"
	}
	var b []byte
	for n > 0 {
		b = append([]byte{byte('0' + n%10)}, b...)
		n /= 10
	}
	return string(b)
}
