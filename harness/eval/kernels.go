//go:build verif

package eval

import (
	"strings"

	"grol.io/grol/object"
)

func init() {
	verifHarness["VerifIntOp"] = VerifIntOp
	verifHarness["VerifFloatOp"] = VerifFloatOp
	verifHarness["VerifIndex"] = VerifIndex
	verifHarness["VerifShortCircuit"] = VerifShortCircuit
}

func verifEvalExpr(s *State, code string) verifOutcome {
	o := verifRunOne(s, code)
	return o
}

func verifIsInt(o verifOutcome, v int64) bool {
	if o.panics != "" || o.isErr || o.res == nil {
		return false
	}
	i, ok := o.res.(object.Integer)
	return ok && i.Value == v
}

func verifIsBool(o verifOutcome, v bool) bool {
	if o.panics != "" || o.isErr || o.res == nil {
		return false
	}
	b, ok := o.res.(object.Boolean)
	return ok && b.Value == v
}

// VerifIntOp: an integer operator applied to two arbitrary int64 values gives the documented result
// (64-bit wrap-around; / truncates, % takes the sign of the dividend; << by 64 or more is 0; >> is a logical
// shift; comparisons). args: operator, reg|noreg
func VerifIntOp(args []string) {
	op := args[0]
	s, _ := verifNewState(len(args) > 1 && args[1] == "noreg")
	l, r := vInt64("a"), vInt64("b")
	s.env.SetNoChecks("a", object.Integer{Value: l}, true)
	s.env.SetNoChecks("b", object.Integer{Value: r}, true)
	code := "a " + op + " b"
	switch op {
	case "neg":
		code = "-a"
	case "not":
		code = "~a"
	case "xorpre":
		code = "^a"
	case "plus":
		code = "+a"
	case "paren":
		code = "(a - b) * a"
	case "func":
		code = "func f(u, v) {u - v}; f(a, b)"
	}
	if op == ":" {
		// range construction, small lengths
		vAssume(r-l >= -1 && r-l <= 6 && l > -1000 && l < 1000)
	}
	o := verifEvalExpr(s, code)
	vAssert(o.panics == "", "intop/panics")
	lab := "intop/" + op
	switch op {
	case "+":
		vAssert(verifIsInt(o, l+r), lab)
	case "-":
		vAssert(verifIsInt(o, l-r), lab)
	case "*":
		vAssert(verifIsInt(o, l*r), lab)
	case "/":
		if r == 0 {
			vAssert(o.isErr, lab+"/by-zero-is-an-error")
		} else {
			vAssert(verifIsInt(o, l/r), lab)
		}
	case "%":
		if r == 0 {
			vAssert(o.isErr, lab+"/by-zero-is-an-error")
		} else {
			vAssert(verifIsInt(o, l%r), lab)
		}
	case "<<":
		switch {
		case r < 0:
			vAssert(o.isErr, lab+"/negative-count-is-an-error")
		case r >= 64:
			vAssert(verifIsInt(o, 0), lab+"/count-of-64-or-more-gives-zero")
		default:
			vAssert(verifIsInt(o, l<<uint(r)), lab)
		}
	case ">>":
		switch {
		case r < 0:
			vAssert(o.isErr, lab+"/negative-count-is-an-error")
		case r >= 64:
			vAssert(verifIsInt(o, 0), lab+"/count-of-64-or-more-gives-zero")
		default:
			vAssert(verifIsInt(o, int64(uint64(l)>>uint(r))), lab+"/logical-shift")
		}
	case "&":
		vAssert(verifIsInt(o, l&r), lab)
	case "|":
		vAssert(verifIsInt(o, l|r), lab)
	case "^":
		vAssert(verifIsInt(o, l^r), lab)
	case "<":
		vAssert(verifIsBool(o, l < r), lab)
	case "<=":
		vAssert(verifIsBool(o, l <= r), lab)
	case ">":
		vAssert(verifIsBool(o, l > r), lab)
	case ">=":
		vAssert(verifIsBool(o, l >= r), lab)
	case "==":
		vAssert(verifIsBool(o, l == r), lab)
	case "!=":
		vAssert(verifIsBool(o, l != r), lab)
	case "neg":
		vAssert(verifIsInt(o, -l), lab)
	case "not", "xorpre":
		vAssert(verifIsInt(o, ^l), lab)
	case "plus":
		vAssert(verifIsInt(o, l), lab)
	case "paren":
		vAssert(verifIsInt(o, (l-r)*l), lab)
	case "func":
		vAssert(verifIsInt(o, l-r), lab)
	case ":":
		if r < l {
			vAssert(o.isErr, lab+"/left-greater-than-right-is-an-error")
			return
		}
		vAssert(!o.isErr && o.res != nil && o.res.Type() == object.ARRAY, lab+"/is-array")
		if o.isErr || o.res == nil || o.res.Type() != object.ARRAY {
			return
		}
		els := object.Elements(o.res)
		vAssert(int64(len(els)) == r-l, lab+"/length")
		for i, e := range els {
			iv, ok := e.(object.Integer)
			vAssert(ok && iv.Value == l+int64(i), lab+"/elements")
		}
	}
}

// VerifFloatOp: float arithmetic is IEEE double arithmetic, integers are converted first; comparisons are
// numeric. args: operator, operand kinds (ff | if | fi)
func VerifFloatOp(args []string) {
	op, kinds := args[0], args[1]
	s, _ := verifNewState(false)
	var l, r float64
	if kinds[0] == 'f' {
		l = vFloat64("x")
		s.env.SetNoChecks("a", object.Float{Value: l}, true)
	} else {
		li := vInt64("a")
		l = float64(li)
		s.env.SetNoChecks("a", object.Integer{Value: li}, true)
	}
	if kinds[1] == 'f' {
		r = vFloat64("y")
		s.env.SetNoChecks("b", object.Float{Value: r}, true)
	} else {
		ri := vInt64("b")
		r = float64(ri)
		s.env.SetNoChecks("b", object.Integer{Value: ri}, true)
	}
	code := "a " + op + " b"
	if op == "neg" {
		code = "-a"
	}
	o := verifEvalExpr(s, code)
	vAssert(o.panics == "" && !o.isErr && o.res != nil, "floatop/fails")
	if o.panics != "" || o.isErr || o.res == nil {
		return
	}
	isF := func(want float64) bool {
		f, ok := o.res.(object.Float)
		return ok && (f.Value == want || (f.Value != f.Value && want != want))
	}
	lab := "floatop/" + op + "/" + kinds
	switch op {
	case "+":
		vAssert(isF(l+r), lab)
	case "-":
		vAssert(isF(l-r), lab)
	case "*":
		vAssert(isF(l*r), lab)
	case "/":
		vAssert(isF(l/r), lab)
	case "neg":
		if kinds[0] == 'f' {
			vAssert(isF(-l), lab)
		}
	}
}

// VerifIndex: X[i], X[l:r], X[l:] on a string, array or map of n elements for every integer index:
// negative indices count from the end, an out-of-range index gives nil, slice bounds are clamped, l>r is an error.
// args: kind (string|array|map), maxN, form (index|slice|open)
func VerifIndex(args []string) {
	kind, maxN, form := args[0], verifAtoi(args[1]), args[2]
	n := vRange("n", 0, maxN)
	s, _ := verifNewState(false)
	switch kind {
	case "string":
		s.env.SetNoChecks("c", object.String{Value: "abcdefghijklmnopqrstuvwxyz"[:n]}, true)
	case "array":
		els := make([]object.Object, n)
		for i := range els {
			els[i] = object.Integer{Value: int64(100 + i)}
		}
		s.env.SetNoChecks("c", object.NewArray(els), true)
	case "map":
		m := object.NewMap()
		for i := 0; i < n; i++ {
			m = m.Set(object.Integer{Value: int64(i)}, object.Integer{Value: int64(100 + i)})
		}
		s.env.SetNoChecks("c", m, true)
	}
	i, j := vInt64("a"), vInt64("b")
	s.env.SetNoChecks("a", object.Integer{Value: i}, true)
	s.env.SetNoChecks("b", object.Integer{Value: j}, true)
	N := int64(n)
	elem := func(k int64) int64 {
		if kind == "string" {
			return int64("abcdefghijklmnopqrstuvwxyz"[k])
		}
		return 100 + k
	}
	lab := "index/" + kind + "/" + form
	switch form {
	case "index":
		o := verifEvalExpr(s, "c[a]")
		vAssert(o.panics == "" && !o.isErr, lab+"/fails")
		if o.panics != "" || o.isErr {
			return
		}
		if kind == "map" {
			if i >= 0 && i < N {
				vAssert(verifIsInt(o, 100+i), lab+"/present-key")
			} else {
				vAssert(o.res == object.NULL, lab+"/missing-key-is-nil")
			}
			return
		}
		k := i
		if k < 0 {
			k += N
		}
		if k < 0 || k >= N {
			vAssert(o.res == object.NULL, lab+"/out-of-range-is-nil")
		} else {
			vAssert(verifIsInt(o, elem(k)), lab+"/element")
		}
	case "slice", "open":
		code := "c[a:b]"
		if form == "open" {
			code = "c[a:]"
		}
		o := verifEvalExpr(s, code)
		vAssert(o.panics == "", lab+"/panics")
		if o.panics != "" {
			return
		}
		lo, hi := i, j
		if form == "open" {
			hi = N
		}
		if lo < 0 {
			lo += N
		}
		if hi < 0 && form != "open" {
			hi += N
		}
		if lo > hi {
			vAssert(o.isErr, lab+"/left-greater-than-right-is-an-error")
			return
		}
		vAssert(!o.isErr, lab+"/valid-bounds-refused")
		if o.isErr {
			return
		}
		if lo < 0 {
			lo = 0
		}
		if hi < 0 {
			hi = 0
		}
		if lo > N {
			lo = N
		}
		if hi > N {
			hi = N
		}
		vAssert(int64(object.Len(o.res)) == hi-lo, lab+"/length")
		if int64(object.Len(o.res)) != hi-lo {
			return
		}
		switch kind {
		case "string":
			str, ok := o.res.(object.String)
			vAssert(ok && str.Value == "abcdefghijklmnopqrstuvwxyz"[lo:hi], lab+"/content")
		case "array":
			for k, e := range object.Elements(o.res) {
				iv, ok := e.(object.Integer)
				vAssert(ok && iv.Value == elem(lo+int64(k)), lab+"/content")
			}
		case "map":
			m, ok := o.res.(object.Map)
			vAssert(ok, lab+"/is-map")
			if ok {
				for k := lo; k < hi; k++ {
					v, found := m.Get(object.Integer{Value: k})
					vAssert(found && v == object.Object(object.Integer{Value: 100 + k}), lab+"/content")
				}
			}
		}
	}
}

// VerifShortCircuit: && and || evaluate their right operand only when needed (observable through printing)
// and yield booleans. args: operator
func VerifShortCircuit(args []string) {
	op := args[0]
	s, out := verifNewState(false)
	p, q := vBool("p"), vBool("q")
	s.env.SetNoChecks("p", object.NativeBoolToBooleanObject(p), true)
	s.env.SetNoChecks("q", object.NativeBoolToBooleanObject(q), true)
	o := verifEvalExpr(s, `func rhs(){println("rhs"); q}; p `+op+` rhs()`)
	printed := strings.Contains(out.String(), "rhs")
	vAssert(o.panics == "" && !o.isErr, "shortcircuit/fails")
	if op == "&&" {
		vAssert(printed == p, "shortcircuit/and-evaluates-right-only-if-left-is-true")
		vAssert(verifIsBool(o, p && q), "shortcircuit/and-value")
	} else {
		vAssert(printed == !p, "shortcircuit/or-evaluates-right-only-if-left-is-false")
		vAssert(verifIsBool(o, p || q), "shortcircuit/or-value")
	}
}
