package main

import (
	"flag"
	"fmt"
	"os"
	"runtime"
	"time"
)

func main() {
	if len(os.Args) < 2 {
		fmt.Fprintln(os.Stderr, "usage: gosym run <pkg> <Func> [args...] | check <ID> [--tier quick|thorough] | replay <file> | selfcheck")
		os.Exit(2)
	}
	switch os.Args[1] {
	case "run":
		cmdRun(os.Args[2:])
	case "check":
		os.Exit(cmdCheck(os.Args[2:]))
	case "replay":
		os.Exit(cmdReplay(os.Args[2:]))
	default:
		fmt.Fprintln(os.Stderr, "unknown command", os.Args[1])
		os.Exit(2)
	}
}

// cmdRun explores one harness (development aid).
func cmdRun(args []string) {
	fs := flag.NewFlagSet("run", flag.ExitOnError)
	workers := fs.Int("j", runtime.NumCPU(), "workers")
	solver := fs.String("solver", "z3", "solver binary")
	tmo := fs.Int("timeout", 10000, "per-query timeout ms")
	budget := fs.Duration("budget", 0, "time budget")
	setup := fs.String("setup", "", "setup function")
	mapOrder := fs.Bool("maporder", false, "explore map orders")
	noAtoms := fs.Bool("noatoms", false, "no atoms")
	fs.Parse(args)
	rest := fs.Args()
	if len(rest) < 2 {
		fmt.Fprintln(os.Stderr, "run <pkg> <Func> [args...]")
		os.Exit(2)
	}
	t0 := time.Now()
	l, err := loadProgram(nil)
	if err != nil {
		fmt.Println("load error:", err)
		for _, e := range l.errs {
			fmt.Println("  ", e)
		}
		os.Exit(2)
	}
	fmt.Println("load+ssa:", time.Since(t0))
	r := NewRunner(l, *workers, *solver, *tmo)
	job := Job{Pkg: rest[0], Func: rest[1], Args: rest[2:], Setup: *setup, MapOrder: *mapOrder, NoAtoms: *noAtoms}
	t1 := time.Now()
	res := r.Run([]Job{job}, *budget)
	printResult(res[0])
	fmt.Printf("queries=%d oneshot=%d unknown=%d errors=%d solver=%v maxq=%v wall=%v\n", r.Queries, r.OneShot, r.SolverUnknown, r.SolverErrors, r.SolverTime, r.MaxQuery, time.Since(t1))
	for k, n := range r.EngineErrors {
		fmt.Printf("ENGINE-ERROR x%d: %s\n", n, k)
	}
}

func printResult(jr *JobResult) {
	fmt.Printf("%s: paths=%d completed=%d steps=%d decisions=%d unknownQ=%d notExplored=%d\n", jr.Job.ID(), jr.Paths, jr.Completed, jr.Steps, jr.Decisions, jr.UnknownQ, jr.NotExplored)
	for _, k := range sortedKeys(jr.Ends) {
		fmt.Printf("  end %-60s %d\n", k, jr.Ends[k])
	}
	for _, k := range sortedKeys(jr.Reaches) {
		fmt.Printf("  reach %-58s %d\n", k, jr.Reaches[k])
	}
	for _, k := range sortedKeys(jr.Notes) {
		fmt.Printf("  note %-59s %d\n", k, jr.Notes[k])
	}
	for _, k := range sortedKeys(jr.Vio) {
		v := jr.Vio[k]
		fmt.Printf("  VIO %s x%d:", k, v.Count)
		for i, n := range v.First.Nondet {
			fmt.Printf(" %s=%#x", n.Tag, v.First.Values[i])
		}
		fmt.Println()
	}
}
