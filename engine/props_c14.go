package main

import "time"

func init() {
	register(&PropSpec{
		ID: "C14",
		Jobs: func(tier string, seed int64) []Job {
			var jobs []Job
			j := func(args ...string) {
				jobs = append(jobs, Job{Prop: "C14", Pkg: "eval", Func: "VerifSaveLoad", Args: args, NoAtoms: true, MaxDec: 3000})
			}
			strKinds := []string{"str1"}
			if tier == "thorough" {
				strKinds = append(strKinds, "str2")
			}
			for _, k := range strKinds {
				j(k, "0", `x = s`)
				if k == "str1" {
					j(k, "0", `x = [s, 1]`, `y = {s: s}`)
					j(k, "0", `x = {1: s, "k": [s]}`)
				}
			}
			lim := "20"
			if tier == "thorough" {
				lim = "1000"
			}
			j("int", "0", lim, `x = a`)
			j("int", "0", "4", `x = [a, -a]`, `y = {a: a}`)
			// concrete witnesses: extremes, floats (witnesses only), containers on both sides of the thresholds, keys of every type
			for _, in := range []string{
				`x = 9223372036854775807`, `x = -9223372036854775807`, `x = -9223372036854775807 - 1`, `x = 0`, `x = -1`,
				`x = 1.5`, `x = 1.0`, `x = 1e100`, `x = 5e-324`, `x = -0.0`, `x = 0.1 + 0.2`, `x = 123456789.125`,
				`x = true`, `y = false`, `z = nil`, `x = ""`, `x = "a\"b\\c\nd"`, "x = `raw\\n`",
				`x = []`, `x = [1]`, `x = [1,2,3,4,5,6,7,8]`, `x = [1,2,3,4,5,6,7,8,9]`, `x = [[1,[2]],[],"s",nil,true,1.5]`,
				`x = {}`, `x = {1:2}`, `x = {1:1,2:2,3:3,4:4}`, `x = {1:1,2:2,3:3,4:4,5:5}`, `x = {1:"a","b":2,true:nil,nil:1.5,[1]:{2:3},1.5:[]}`,
				`func f(a,b){a+b}`, `func f(){}`, `func f(a){if a<2 {return a}; f(a-1)+f(a-2)}`, `func f(a,..){len(..)+a}`, `f = func(a){a*2}`, `f = a => a+1`, `f = (a,b) => {println(a); a-b}`,
				`func f(a){for i=3 {if i==a {break}; println(i)}; [a, {a:a}, "s"][0]}`, `func f(a){g = x => x*a; g(2)}`, `f = () => 1`, `func f(a){a[1:]}`, `func f(a){-a - -a}`,
				`func f(a){m={"k":a}; m.k + m["k"]}`, `func f(a){x = a; x++; x}`, `func f(a) {// comment` + "\n" + `a /* c */ + 1}`,
				// bodies whose value depends on the parentheses the saved text keeps
				`func f(a,b){a - (b + 1)}`, `func f(a,b){100 / (a * b)}`, `func f(a,b){a - (b - 1)}`, `func f(a,b){(a + b) * 2}`, `func f(a,b){a % (b * 2)}`, `func f(a,b){10 - (a - (b + 1))}`,
				`func f(a,b){a << (b >> 1)}`, `func f(a,b){!(a < b) == (a > b)}`, `func f(a,b){-(a + b)}`, `func f(a,b){a - (b + 1) * (a - (b - a))}`, `func f(a,b){(a, b) => a - (b - 1)}`, `func f(a,b){[a - (b + a)][0] + {1: a / (b / 2)}[1]}`,
				`func f(a,b){(x => x * 2)(a + b)}`, `func f(a,b){if (a < b) == true {-(-a)} else {a--; a}}`, `func f(a,b){(a + b)[0]}`, `func f(a,b){"x" + ("y" + "z") * 2}`,
				// lambdas whose single body statement binds looser than => or is not an expression
				`f = (a,b) => {t = a - b}`, `f = (a,b) => {return a - b}`, `f = (a,b) => {a < b || a > b}`, `f = (a,b) => {a < b && b < 9}`, `f = (a,b) => {t := a * b}`, `f = (a,b) => {[a:b]}`, `f = (a,b) => {(x => x + a)(b)}`, `f = (a,b) => {x => x + a + b}`,
				`f = (a,b) => {if a < b {a} else {b}}`, `f = (a,b) => {for i = a {b = b + i}}`, `f = (a,b) => {a; b}`, `f = (a,b) => {-a}`, `f = (a,b) => {a--}`, `f = (a,b) => {{"k": a - b}}`, `f = (a,b) => {[a - b]}`, `f = (a,b) => {println(a); return b}`,
				`f = a => {t = a * 2}`, `f = a => {return a * 2}`, `f = a => {a > 2 || a < 0}`,
				// a function bound under another name; bodies that are empty, only a comment, or start with a map literal
				`func nm(a,b){a+b}; al = nm`, `f = func g2(a){a*2}`, `func nm(a){a+1}; al = nm; del(nm)`, `f = a => {/* nothing */}`, `f = a => {}`, `f = a => {/* c */ a+1}`, `f = a => {a+1 /* c */}`,
				`f = a => {{"k":a}.k}`, `f = a => {{"k":a}["k"]}`, `f = a => {{1:2}+{3:a}}`, `f = (a,b) => {{a:b}}`, `f = a => {[a][0]}`, `f = a => {(a)}`, `f = a => {-a}`, `f = a => {"s" + "t"}`,
				`ab = 1`, `a_b1 = 2`, `x = 1; y = 2; z = x + y`, `K = 5`, `x = [1,2]; y = x; z = {x: y}`,
			} {
				j("none", "0", in)
			}
			// values longer than the configured limit are skipped, not truncated
			for _, ml := range []string{"9", "10", "11", "12", "13"} {
				j("none", ml, `x = "abcdefghi"`, `y = 1`)
				j("none", ml, `x = [1,2,3,4,5]`, `y = [1]`)
			}
			return jobs
		},
		Budget:    map[string]time.Duration{"quick": 8 * time.Minute, "thorough": 60 * time.Minute},
		TimeoutMs: map[string]int{"quick": 30000, "thorough": 120000},
		Reach:     []string{"saved", "value skipped"},
		Bounds: map[string]interface{}{"strings": "all strings of 1 arbitrary byte (2 thorough) as a global, inside an array, as map key and value: strconv.Quote, the lexer's readString and the parser run from their own code on the symbolic bytes (atoms off)",
			"integers":  "all integers with |i| < 20 (1000 thorough) through strconv.FormatInt, the lexer and strconv.ParseInt executed digit by digit; both int64 extremes as concrete paths",
			"floats":    "concrete witnesses only (integral-valued, subnormal, huge, infinity, -0, 0.1+0.2): FormatFloat/ParseFloat are not encoded - this is NOT an all-floats claim",
			"structure": "booleans, nil, strings with escapes, arrays and maps on both sides of the 8/4 thresholds, map keys of every type, nested containers, 67 function/lambda shapes (19 lambdas whose body is an assignment, a return, ||, &&, a range, another lambda, if, for, two statements, ...) (16 of them with a body whose value depends on parentheses) (re-saved text equal and same behaviour on sample arguments), MaxValueLen at 9..13 around a 11-byte value"},
		Outside: []string{"floats other than the witnesses", "integers beyond the digit bound other than the extremes", "strings longer than 1 (2) arbitrary bytes"},
	})
}
