package main

import (
	"fmt"
	"go/types"
	"math"
	"reflect"
	"strconv"
	"strings"
	"unicode"
	"unicode/utf8"
	"unsafe"

	"golang.org/x/tools/go/ssa"
)

// initAllow lists the non-grol packages whose init functions are executed on demand (pure table setup).
var initAllow = map[string]bool{
	"strconv": true, "strings": true, "bytes": true, "unicode": true, "unicode/utf8": true, "sort": true,
	"slices": true, "cmp": true, "math/bits": true, "math": true, "io": true, "maps": true,
	"fortio.org/sets": true, "fortio.org/safecast": true, "internal/bytealg": false,
	"regexp": true, "regexp/syntax": true, "encoding/base64": true, "encoding/binary": true,
}

func isGrol(p *ssa.Package) bool {
	return p != nil && strings.HasPrefix(p.Pkg.Path(), "grol.io/grol")
}

// ensureInit runs the package initializer of p (once per executor) when allowed.
func (x *Exec) ensureInit(p *ssa.Package) {
	if x.pkgInit[p] {
		return
	}
	x.pkgInit[p] = true
	path := p.Pkg.Path()
	if !isGrol(p) && !initAllow[path] {
		return
	}
	initFn := p.Func("init")
	if initFn == nil {
		return
	}
	saved := x.logUndo
	x.logUndo = false // initialisation is permanent for this executor
	savedDec, savedPos, savedTaken := x.decisions, x.dpos, x.taken
	defer func() {
		x.logUndo = saved
		x.decisions, x.dpos, x.taken = savedDec, savedPos, savedTaken
	}()
	x.callSSA(initFn, nil, nil)
}

var errorStringPtr types.Type

func (x *Exec) mkError(msg string) Value {
	return x.mkErrorStr(Str{S: msg})
}

func (x *Exec) mkErrorStr(msg Str) Value {
	if errorStringPtr == nil {
		panic("errors.errorString type not resolved")
	}
	var v Value = Struct{msg}
	return Iface{T: errorStringPtr, V: Ptr{&v}}
}

func resolveWellKnown(prog *ssa.Program) {
	for _, p := range prog.AllPackages() {
		if p.Pkg.Path() == "errors" {
			if tn := p.Type("errorString"); tn != nil {
				errorStringPtr = types.NewPointer(tn.Type())
			}
		}
	}
}

func (x *Exec) nondetRecord(tag, kind string, t *Term) {
	x.nondet = append(x.nondet, NondetVal{Tag: tag, Kind: kind, T: t})
}

func concStr(v Value) string {
	s := v.(Str)
	if s.Sym != nil {
		unsupported("symbolic string where a concrete one is required")
	}
	return s.S
}

// harnessAPI implements the v* functions declared by the harness prelude.
func (x *Exec) harnessAPI(name string, args []Value) (Value, bool) {
	tt := x.tt
	switch name {
	case "vByte":
		t := x.freshVar(concStr(args[0]), 8)
		x.nondetRecord(concStr(args[0]), "u8", t)
		return Int{W: 8, S: t}, true
	case "vInt64":
		t := x.freshVar(concStr(args[0]), 64)
		x.nondetRecord(concStr(args[0]), "i64", t)
		return Int{W: 64, Signed: true, S: t}, true
	case "vBool":
		t := x.freshVar(concStr(args[0]), 0)
		x.nondetRecord(concStr(args[0]), "bool", t)
		return Bool{S: t}, true
	case "vFloat64":
		t := x.freshVar(concStr(args[0]), 64)
		x.nondetRecord(concStr(args[0]), "f64", t)
		return Float{S: tt.FFromBits(t)}, true
	case "vRange":
		lo, hi := int(args[1].(Int).conc()), int(args[2].(Int).conc())
		if hi < lo {
			panic(pathEnd{"assume false"})
		}
		v := lo + x.choose(hi-lo+1)
		x.nondet = append(x.nondet, NondetVal{Tag: concStr(args[0]), Kind: "range", C: uint64(int64(v))})
		return mkI64(int64(v)), true
	case "vAssume":
		x.assume(args[0].(Bool))
		return nil, true
	case "vReach":
		x.reaches = append(x.reaches, concStr(args[0]))
		return nil, true
	case "vAssert":
		x.assert(args[0].(Bool), describeLabel(args[1]))
		return nil, true
	case "vConcretize":
		i := args[0].(Int)
		return Int{W: i.W, Signed: i.Signed, C: uint64(x.concretize(i, "vConcretize", 1024)) & mask(i.W)}, true
	case "vIsSymbolic":
		switch a := args[0].(type) {
		case Iface:
			switch v := a.V.(type) {
			case Int:
				return Bool{C: v.S != nil}, true
			case Str:
				return Bool{C: v.Sym != nil}, true
			case Float:
				return Bool{C: v.S != nil}, true
			case Bool:
				return Bool{C: v.S != nil}, true
			}
		}
		return Bool{}, true
	case "vSymbolicRun":
		return Bool{C: true}, true
	case "vStubOff":
		if x.stubOff == nil {
			x.stubOff = map[string]bool{}
		}
		x.stubOff[concStr(args[0])] = args[1].(Bool).C
		return nil, true
	case "vStubOn":
		if x.stubOn == nil {
			x.stubOn = map[string]bool{}
		}
		x.stubOn[modPath+"/"+concStr(args[0])] = true
		return nil, true
	case "vNote":
		x.notes = append(x.notes, describeLabel(args[0]))
		return nil, true
	case "vMapOrder":
		if x.env == nil {
			x.env = map[string]Value{}
		}
		if args[0].(Bool).C {
			delete(x.env, "mapOrderOff")
		} else {
			x.env["mapOrderOff"] = true
		}
		return nil, true
	}
	return nil, false
}

func describeLabel(v Value) string {
	s := v.(Str)
	if s.Sym == nil {
		return s.S
	}
	return describe(s)
}

func (x *Exec) replaying() bool { return x.dpos < len(x.decisions) }

func (x *Exec) assume(c Bool) {
	if c.S == nil {
		if !c.C {
			panic(pathEnd{"assume false"})
		}
		return
	}
	t := x.simp(c.S)
	if t.IsTrue() {
		return
	}
	if t.IsFalse() {
		panic(pathEnd{"assume false"})
	}
	if x.replaying() {
		x.addPC(t)
		return
	}
	r, m := x.feasible(t)
	if r == 0 {
		panic(pathEnd{"assume infeasible"})
	}
	x.addPC(t)
	x.model = m
}

func (x *Exec) assert(c Bool, label string) {
	if x.replaying() {
		// already decided by the path this one forked from
		if c.S != nil {
			if t := x.simp(c.S); !t.IsConst() {
				x.addPC(t)
			}
		}
		return
	}
	var nc, pos *Term
	if c.S == nil {
		if c.C {
			x.nAssertConst++
			return
		}
		nc, pos = x.tt.tru, x.tt.fls
	} else {
		pos = x.simp(c.S)
		if pos.IsTrue() {
			x.nAssertConst++
			return
		}
		nc = x.tt.Not(pos)
	}
	res, m := x.solver.Check(x.pc, nc, x.symVars)
	switch res {
	case 0:
		x.nAssertUnsat++
	case 1:
		x.recordViolation(label, false, m)
	case -1:
		x.unknownQ++
		x.notes = append(x.notes, "assert-unknown:"+label)
	}
	if pos.IsFalse() {
		panic(pathEnd{"assert fails on every value of this path"})
	}
	// continue where the assertion holds
	r, m2 := x.feasible(pos)
	if r == 0 {
		panic(pathEnd{"assert fails on every value of this path"})
	}
	x.addPC(pos)
	x.model = m2
}

func (x *Exec) recordViolation(label string, isPanic bool, m Model) {
	v := Violation{Label: label, Panic: isPanic, Nondet: append([]NondetVal{}, x.nondet...)}
	cache := map[*Term]uint64{}
	for _, n := range v.Nondet {
		if n.T == nil {
			v.Values = append(v.Values, n.C)
			continue
		}
		val, _ := m.Eval(n.T, cache)
		v.Values = append(v.Values, val)
	}
	v.Reaches = append([]string{}, x.reaches...)
	x.violations = append(x.violations, v)
}

// ---- intrinsics and models of library functions

func ret2(a, b Value) Value { return Tuple{a, b} }

func (x *Exec) builderBuf(v Value) (*Value, []Value) {
	bp := v.(Ptr)
	if bp.P == nil {
		goPanicf("invalid memory address or nil pointer dereference")
	}
	s := (*bp.P).(Struct)
	buf := s[1].(Slice)
	return &s[1], buf.Data
}

func (x *Exec) builderAppend(v Value, add []Value) {
	cell, data := x.builderBuf(v)
	d := make([]Value, len(data), len(data)+len(add))
	copy(d, data)
	d = append(d, add...)
	x.store(cell, Slice{Data: d})
}

func (x *Exec) intrinsic(fn *ssa.Function, args []Value) (Value, bool) {
	if fn.Pkg == nil {
		// synthetic wrappers, instantiated generics
		if fn.Origin() != nil && fn.Origin().Pkg != nil {
			return x.intrinsicNamed(fn, fn.Origin().Pkg.Pkg.Path(), fn.Origin().String(), args)
		}
		return nil, false
	}
	path := fn.Pkg.Pkg.Path()
	if fn.Name() == "init" && !isGrol(fn.Pkg) && !initAllow[path] {
		return nil, true
	}
	if isGrol(fn.Pkg) && fn.Name() == "vFresh" {
		return x.freshRun(fn.Pkg, concStr(args[0]), args[1].(Slice)), true
	}
	if isGrol(fn.Pkg) && len(fn.Name()) > 1 && fn.Name()[0] == 'v' {
		if r, ok := x.harnessAPI(fn.Name(), args); ok {
			return r, true
		}
		if strings.HasPrefix(fn.Name(), "vFS") {
			if r, ok := x.fsAPI(fn.Name(), args); ok {
				return r, true
			}
		}
	}
	return x.intrinsicNamed(fn, path, fn.String(), args)
}

func zeroResults(fn *ssa.Function) Value {
	res := fn.Signature.Results()
	switch res.Len() {
	case 0:
		return nil
	case 1:
		return zero(res.At(0).Type())
	}
	return zero(res)
}

func (x *Exec) intrinsicNamed(fn *ssa.Function, path, name string, args []Value) (Value, bool) {
	switch path {
	case "fortio.org/log":
		x.stubsHit["fortio.org/log.* (no effect)"] = true
		switch fn.Name() {
		case "GetLogLevel":
			w, sg, _ := intInfo(fn.Signature.Results().At(0).Type())
			return Int{W: w, Signed: sg, C: 2}, true // Info
		case "Log":
			return Bool{C: false}, true
		}
		return zeroResults(fn), true
	case "sync", "sync/atomic", "internal/race", "internal/poll":
		if name == "(*sync.Pool).Get" {
			// an empty pool: New() when set, nil otherwise (Put is a no-op)
			if pp, ok := args[0].(Ptr); ok && pp.P != nil {
				if st, ok := (*pp.P).(Struct); ok && len(st) > 0 {
					switch nf := st[len(st)-1].(type) {
					case Func, *Closure:
						return x.call(nf, nil), true
					}
				}
			}
			return Iface{}, true
		}
		if fn.Signature.Results().Len() == 0 {
			return nil, true
		}
	case "runtime", "runtime/debug":
		switch name {
		case "runtime.GC", "runtime.ReadMemStats", "runtime/debug.SetMemoryLimit", "runtime/debug.SetGCPercent", "runtime.KeepAlive", "runtime/debug.SetMaxStack":
			x.stubsHit[name] = true
			return zeroResults(fn), true
		}
	}
	if name == "slices.overlaps" {
		a, b := args[0].(Slice).Data, args[1].(Slice).Data
		if len(a) == 0 || len(b) == 0 {
			return Bool{C: false}, true
		}
		a0, a1 := uintptr(unsafe.Pointer(&a[0])), uintptr(unsafe.Pointer(&a[len(a)-1]))
		b0, b1 := uintptr(unsafe.Pointer(&b[0])), uintptr(unsafe.Pointer(&b[len(b)-1]))
		return Bool{C: a0 <= b1 && b0 <= a1}, true
	}
	switch name {
	case "(*strings.Builder).WriteByte":
		x.builderAppend(args[0], []Value{args[1]})
		return Iface{}, true
	case "(*strings.Builder).WriteString":
		s := args[1].(Str)
		x.builderAppend(args[0], strToBytes(s))
		if s.HasAtom() {
			return ret2(x.atomLen(s), Iface{}), true
		}
		return ret2(mkI64(int64(s.Len())), Iface{}), true
	case "(*strings.Builder).WriteRune":
		s := x.encodeRune(args[1].(Int))
		x.builderAppend(args[0], strToBytes(s))
		return ret2(mkI64(int64(s.Len())), Iface{}), true
	case "(*strings.Builder).Grow", "(*strings.Builder).copyCheck":
		return nil, true
	case "(*strings.Builder).Write":
		src := args[1].(Slice)
		x.builderAppend(args[0], src.Data)
		return ret2(mkI64(int64(len(src.Data))), Iface{}), true
	case "(*strings.Builder).String":
		_, data := x.builderBuf(args[0])
		return bytesToStr(append([]Value{}, data...)), true
	case "(*strings.Builder).Len":
		_, data := x.builderBuf(args[0])
		s := bytesToStr(data)
		if s.HasAtom() {
			return x.atomLen(s), true
		}
		return mkI64(int64(len(data))), true
	case "(*strings.Builder).Reset":
		cell, _ := x.builderBuf(args[0])
		x.store(cell, Slice{Nil: true})
		return nil, true
	case "(*bytes.Buffer).String":
		// avoid unsafe string construction
		bp := args[0].(Ptr)
		if bp.P == nil {
			return Str{S: "<nil>"}, true
		}
		s := (*bp.P).(Struct)
		buf := s[0].(Slice)
		off := int(s[1].(Int).conc())
		return bytesToStr(append([]Value{}, buf.Data[off:]...)), true
	case "bytes.IndexByte", "internal/bytealg.IndexByte":
		s := args[0].(Slice)
		c := args[1].(Int)
		for i, e := range s.Data {
			if x.branch(x.tt.Cmp(OpEq, x.term(e.(Int)), x.term(c))) {
				return mkI64(int64(i)), true
			}
		}
		return mkI64(-1), true
	case "strings.IndexByte", "internal/bytealg.IndexByteString":
		s := args[0].(Str)
		c := args[1].(Int)
		if s.Sym == nil && c.S == nil {
			return mkI64(int64(strings.IndexByte(s.S, byte(c.C)))), true
		}
		for i := 0; i < s.Len(); i++ {
			if x.branch(x.byteEq(x.strByte(s, i), c)) {
				return mkI64(int64(i)), true
			}
		}
		return mkI64(-1), true
	case "internal/bytealg.CountString", "internal/bytealg.Count":
		var bs []Int
		if s, ok := args[0].(Str); ok {
			bs = strBytes(s)
		} else {
			for _, e := range args[0].(Slice).Data {
				bs = append(bs, e.(Int))
			}
		}
		c := args[1].(Int)
		n := 0
		for _, b := range bs {
			if x.branch(x.tt.Cmp(OpEq, x.term(b), x.term(c))) {
				n++
			}
		}
		return mkI64(int64(n)), true
	case "internal/bytealg.IndexString", "strings.Index":
		s, sub := args[0].(Str), args[1].(Str)
		if s.Sym == nil && sub.Sym == nil {
			return mkI64(int64(strings.Index(s.S, sub.S))), true
		}
		for i := 0; i+sub.Len() <= s.Len(); i++ {
			if x.branch(x.strEq(x.strSlice(s, i, i+sub.Len()), sub)) {
				return mkI64(int64(i)), true
			}
		}
		return mkI64(-1), true
	case "internal/bytealg.MakeNoZero":
		n := int(args[0].(Int).conc())
		d := make([]Value, n)
		for i := range d {
			d[i] = Int{W: 8}
		}
		return Slice{Data: d}, true
	case "internal/stringslite.Clone", "strings.Clone":
		return args[0], true
	case "unsafe.String", "unsafe.StringData", "unsafe.SliceData", "unsafe.Slice":
		unsupported("%s", name)
	case "strings.Repeat":
		s := args[0].(Str)
		if ci := args[1].(Int); ci.S != nil {
			tt := x.tt
			if x.branch(tt.Cmp(OpSlt, ci.S, tt.Const(64, 0))) {
				panic(goPanic{msg: "strings: negative Repeat count", val: Iface{T: types.Typ[types.String], V: Str{S: "strings: negative Repeat count"}}, site: "strings.Repeat"})
			}
			if s.Len() > 0 && x.branch(tt.Cmp(OpSlt, tt.Const(64, uint64((1<<63-1)/s.Len())), ci.S)) {
				panic(goPanic{msg: "strings: Repeat output length overflow", val: Iface{T: types.Typ[types.String], V: Str{S: "strings: Repeat output length overflow"}}, site: "strings.Repeat"})
			}
		}
		c := int(x.concretizeSmall(args[1].(Int), "repeat count", 9))
		if c < 0 {
			panic(goPanic{msg: "strings: negative Repeat count", val: Iface{T: types.Typ[types.String], V: Str{S: "strings: negative Repeat count"}}, site: "strings.Repeat"})
		}
		if s.Len() > 0 && c > (1<<63-1)/s.Len() {
			panic(goPanic{msg: "strings: Repeat output length overflow", val: Iface{T: types.Typ[types.String], V: Str{S: "strings: Repeat output length overflow"}}, site: "strings.Repeat"})
		}
		if int64(c)*int64(s.Len()) > 1<<22 {
			panic(pathEnd{"bound-exceeded: huge strings.Repeat"})
		}
		if s.Sym == nil {
			return Str{S: strings.Repeat(s.S, c)}, true
		}
		r := Str{}
		for i := 0; i < c; i++ {
			r = x.strConcat(r, s)
		}
		return r, true
	case "strconv.FormatInt":
		i := args[0].(Int)
		base := int(args[1].(Int).conc())
		if i.S == nil {
			return Str{S: strconv.FormatInt(i.conc(), base)}, true
		}
		if base == 10 && x.atoms {
			return Str{Sym: []Int{{W: 8, S: x.tt.Resize(i.S, 64, true), Atom: atomDec}}}, true
		}
	case "strconv.Itoa":
		i := args[0].(Int)
		if i.S == nil {
			return Str{S: strconv.Itoa(int(i.conc()))}, true
		}
		if x.atoms {
			return Str{Sym: []Int{{W: 8, S: i.S, Atom: atomDec}}}, true
		}
	case "strconv.FormatFloat":
		f := args[0].(Float)
		if f.S == nil {
			return Str{S: strconv.FormatFloat(f.C, byte(args[1].(Int).C), int(args[2].(Int).conc()), int(args[3].(Int).conc()))}, true
		}
		if x.atoms {
			return Str{Sym: []Int{{W: 8, S: f.S, Atom: atomFlt}}}, true
		}
		unsupported("FormatFloat of a symbolic float")
	case "strconv.ParseFloat":
		s := args[0].(Str)
		if s.Sym == nil {
			v, err := strconv.ParseFloat(s.S, int(args[1].(Int).conc()))
			if err != nil {
				return ret2(Float{C: v}, x.mkError(err.Error())), true
			}
			return ret2(Float{C: v}, Iface{}), true
		}
		return x.parseFloatSym(s), true
	case "strconv.Quote":
		s := args[0].(Str)
		if s.Sym == nil {
			return Str{S: strconv.Quote(s.S)}, true
		}
		if x.atoms && !s.HasAtom() {
			// one opaque segment standing for the quoted text of these bytes (no forking over Quote's
			// printable/UTF-8 case analysis); C02/C14 switch atoms off and run strconv.Quote itself
			ts := make([]*Term, len(s.Sym))
			for i, b := range s.Sym {
				ts[i] = x.term(b)
			}
			return Str{Sym: []Int{{W: 8, S: x.tt.UF(fmt.Sprintf("quote%d", len(ts)), 64, ts...), Atom: atomQuo}}}, true
		}
	case "fmt.Sprintf":
		return x.format(concStr(args[0]), args[1].(Slice).Data), true
	case "fmt.Sprint":
		return x.sprint(args[0].(Slice).Data, false), true
	case "fmt.Sprintln":
		return x.sprint(args[0].(Slice).Data, true), true
	case "fmt.Errorf":
		return x.mkErrorStr(x.format(concStr(args[0]), args[1].(Slice).Data)), true
	case "fmt.Fprintf":
		s := x.format(concStr(args[1]), args[2].(Slice).Data)
		return x.writeTo(args[0].(Iface), s), true
	case "fmt.Fprint":
		return x.writeTo(args[0].(Iface), x.sprint(args[1].(Slice).Data, false)), true
	case "fmt.Fprintln":
		return x.writeTo(args[0].(Iface), x.sprint(args[1].(Slice).Data, true)), true
	case "fmt.Printf", "fmt.Println", "fmt.Print":
		return ret2(mkI64(0), Iface{}), true
	case "errors.New":
		return x.mkErrorStr(args[0].(Str)), true
	case "errors.Is":
		a, b := args[0].(Iface), args[1].(Iface)
		if a.T == nil || b.T == nil {
			// a nil error matches nothing (the target may be a sentinel of a package the executor did not initialise)
			return Bool{C: false}, true
		}
		if !x.identical(a.T, b.T) {
			return Bool{C: false}, true
		}
		return x.mkBool(x.eqTerm(a, b)), true
	case "context.WithCancel":
		x.stubsHit["context.WithCancel (returns parent, no-op cancel)"] = true
		return ret2(args[0], NoopFunc{}), true
	case "context.WithTimeout", "context.WithDeadline":
		x.stubsHit["context.WithTimeout (returns parent, no-op cancel)"] = true
		return ret2(args[0], NoopFunc{}), true
	case "math.NaN":
		return Float{C: math.NaN()}, true
	case "math.Inf":
		return Float{C: math.Inf(int(args[0].(Int).conc()))}, true
	case "math.Float64frombits":
		i := args[0].(Int)
		return x.mkFloat(x.tt.FFromBits(x.term(i)), false), true
	case "math.Float64bits":
		f := args[0].(Float)
		if f.S == nil {
			return Int{W: 64, C: math.Float64bits(f.C)}, true
		}
		if f.S.Op == OpFFromBits {
			return x.mkInt(64, false, f.S.Args[0]), true
		}
		b := x.freshVar("f64bits", 64)
		x.addPC(x.tt.intern(&Term{Op: OpFToBitsEq, W: 0, Args: []*Term{b, f.S}}))
		x.model = nil
		return Int{W: 64, S: b}, true
	case "math.IsNaN":
		f := args[0].(Float)
		return x.mkBool(x.tt.FIsNaN(x.fterm(f))), true
	case "math.IsInf":
		f := args[0].(Float)
		if f.S == nil {
			return Bool{C: math.IsInf(f.C, int(args[1].(Int).conc()))}, true
		}
		sign := args[1].(Int).conc()
		tt := x.tt
		pinf := tt.FCmp(OpFEq, f.S, tt.FConst(math.Inf(1)))
		ninf := tt.FCmp(OpFEq, f.S, tt.FConst(math.Inf(-1)))
		switch {
		case sign > 0:
			return x.mkBool(pinf), true
		case sign < 0:
			return x.mkBool(ninf), true
		}
		return x.mkBool(tt.Or(pinf, ninf)), true
	case "math.Abs":
		f := args[0].(Float)
		return x.mkFloat(x.tt.FAbs(x.fterm(f)), false), true
	case "math.Sqrt":
		f := args[0].(Float)
		if f.S == nil {
			return Float{C: math.Sqrt(f.C)}, true
		}
		return Float{S: x.tt.intern(&Term{Op: OpFSqrt, W: FPW, Args: []*Term{f.S}})}, true
	case "math.Mod", "math.Pow", "math.Atan2", "math.Hypot":
		a, b := args[0].(Float), args[1].(Float)
		if a.S == nil && b.S == nil {
			break
		}
		x.stubsHit[name+" (uninterpreted on symbolic floats)"] = true
		return Float{S: x.tt.UF("uf_"+fn.Name(), FPW, x.fterm(a), x.fterm(b))}, true
	case "math.Sin", "math.Cos", "math.Tan", "math.Asin", "math.Acos", "math.Atan", "math.Exp", "math.Log", "math.Log10", "math.Log2",
		"math.Floor", "math.Ceil", "math.Trunc", "math.Round", "math.Cbrt", "math.Sinh", "math.Cosh", "math.Tanh", "math.RoundToEven":
		a := args[0].(Float)
		if a.S == nil {
			break
		}
		x.stubsHit[name+" (uninterpreted on symbolic floats)"] = true
		return Float{S: x.tt.UF("uf_"+fn.Name(), FPW, a.S)}, true
	case "(*os.File).Write", "(*os.File).WriteString":
		if x.fs != nil {
			return x.fs.write(x, args), true
		}
		x.stubsHit["(*os.File).Write (discarded)"] = true
		var n int
		switch a := args[1].(type) {
		case Slice:
			n = len(a.Data)
		case Str:
			n = a.Len()
		}
		return ret2(mkI64(int64(n)), Iface{}), true
	case "os.Exit":
		panic(goPanic{msg: "os.Exit called", site: "os.Exit"})
	}
	if x.fs != nil {
		if r, ok := x.fs.intrinsic(x, name, args); ok {
			return r, true
		}
	}
	if r, ok := x.nativeCall(name, fn, args); ok {
		return r, true
	}
	return nil, false
}

// writeTo invokes w.Write(bytes of s).
func (x *Exec) writeTo(w Iface, s Str) Value {
	if w.T == nil {
		goPanicf("invalid memory address or nil pointer dereference")
	}
	fn := x.lookupMethod(w.T, "Write")
	if fn == nil {
		unsupported("Write method not found on %v", w.T)
	}
	data := strToBytes(s)
	return x.callSSA(fn, []Value{w.V, Slice{Data: data}}, nil)
}

// ---- native calls on concrete arguments

var natives = map[string]interface{}{
	"strings.TrimSpace": strings.TrimSpace, "strings.ToLower": strings.ToLower, "strings.ToUpper": strings.ToUpper,
	"strings.HasPrefix": strings.HasPrefix, "strings.HasSuffix": strings.HasSuffix, "strings.TrimSuffix": strings.TrimSuffix,
	"strings.TrimPrefix": strings.TrimPrefix, "strings.Contains": strings.Contains, "strings.Split": strings.Split,
	"strings.SplitN": strings.SplitN, "strings.Join": strings.Join, "strings.TrimRight": strings.TrimRight,
	"strings.TrimLeft": strings.TrimLeft, "strings.Trim": strings.Trim, "strings.EqualFold": strings.EqualFold,
	"strings.Fields": strings.Fields, "strings.ReplaceAll": strings.ReplaceAll, "strings.LastIndex": strings.LastIndex,
	"strings.IndexRune": strings.IndexRune, "strings.ContainsRune": strings.ContainsRune, "strings.Count": strings.Count,
	"strings.LastIndexByte": strings.LastIndexByte, "strings.ContainsAny": strings.ContainsAny, "strings.IndexAny": strings.IndexAny,
	"strconv.Atoi": strconv.Atoi, "strconv.ParseInt": strconv.ParseInt, "strconv.ParseUint": strconv.ParseUint,
	"strconv.FormatBool": strconv.FormatBool, "strconv.QuoteRune": strconv.QuoteRune, "strconv.Unquote": strconv.Unquote,
	"strconv.FormatUint": strconv.FormatUint, "strconv.ParseBool": strconv.ParseBool,
	"math.Mod": math.Mod, "math.Pow": math.Pow, "math.Sin": math.Sin, "math.Cos": math.Cos, "math.Tan": math.Tan,
	"math.Asin": math.Asin, "math.Acos": math.Acos, "math.Atan": math.Atan, "math.Exp": math.Exp, "math.Log": math.Log,
	"math.Log10": math.Log10, "math.Log2": math.Log2, "math.Floor": math.Floor, "math.Ceil": math.Ceil, "math.Trunc": math.Trunc,
	"math.Round": math.Round, "math.Cbrt": math.Cbrt, "math.Atan2": math.Atan2, "math.Hypot": math.Hypot,
	"math.RoundToEven": math.RoundToEven, "math.Sinh": math.Sinh, "math.Cosh": math.Cosh, "math.Tanh": math.Tanh,
	"unicode.IsSpace": unicode.IsSpace, "unicode.IsLetter": unicode.IsLetter, "unicode.IsDigit": unicode.IsDigit,
	"unicode.IsUpper": unicode.IsUpper, "unicode.IsLower": unicode.IsLower, "unicode.ToLower": unicode.ToLower,
	"unicode.ToUpper": unicode.ToUpper, "unicode.IsPrint": unicode.IsPrint, "unicode.IsControl": unicode.IsControl,
	"unicode/utf8.RuneCountInString": utf8.RuneCountInString, "unicode/utf8.ValidString": utf8.ValidString,
	"unicode/utf8.RuneLen": utf8.RuneLen, "unicode/utf8.ValidRune": utf8.ValidRune,
	"strconv.IsPrint": strconv.IsPrint,
}

func (x *Exec) nativeCall(name string, fn *ssa.Function, args []Value) (Value, bool) {
	f, ok := natives[name]
	if !ok {
		return nil, false
	}
	fv := reflect.ValueOf(f)
	ft := fv.Type()
	if ft.NumIn() != len(args) || ft.IsVariadic() {
		return nil, false
	}
	in := make([]reflect.Value, len(args))
	for i, a := range args {
		rv, ok := toNative(a, ft.In(i))
		if !ok {
			return nil, false // symbolic argument: run the function's own SSA
		}
		in[i] = rv
	}
	out := fv.Call(in)
	res := make([]Value, len(out))
	sig := fn.Signature.Results()
	for i, o := range out {
		res[i] = x.fromNative(o, sig.At(i).Type())
	}
	switch len(res) {
	case 0:
		return nil, true
	case 1:
		return res[0], true
	}
	return Tuple(res), true
}

func toNative(v Value, t reflect.Type) (reflect.Value, bool) {
	switch a := v.(type) {
	case Str:
		if a.Sym != nil || t.Kind() != reflect.String {
			return reflect.Value{}, false
		}
		return reflect.ValueOf(a.S).Convert(t), true
	case Int:
		if a.S != nil {
			return reflect.Value{}, false
		}
		switch t.Kind() {
		case reflect.Int, reflect.Int64, reflect.Int32, reflect.Int16, reflect.Int8:
			return reflect.ValueOf(a.conc()).Convert(t), true
		case reflect.Uint, reflect.Uint64, reflect.Uint32, reflect.Uint16, reflect.Uint8:
			return reflect.ValueOf(a.C).Convert(t), true
		}
	case Float:
		if a.S != nil || t.Kind() != reflect.Float64 {
			return reflect.Value{}, false
		}
		return reflect.ValueOf(a.C), true
	case Bool:
		if a.S != nil || t.Kind() != reflect.Bool {
			return reflect.Value{}, false
		}
		return reflect.ValueOf(a.C), true
	case Slice:
		if t.Kind() == reflect.Slice && t.Elem().Kind() == reflect.String {
			out := make([]string, len(a.Data))
			for i, e := range a.Data {
				s, ok := e.(Str)
				if !ok || s.Sym != nil {
					return reflect.Value{}, false
				}
				out[i] = s.S
			}
			return reflect.ValueOf(out), true
		}
	}
	return reflect.Value{}, false
}

func (x *Exec) fromNative(o reflect.Value, t types.Type) Value {
	switch o.Kind() {
	case reflect.String:
		return Str{S: o.String()}
	case reflect.Int, reflect.Int64, reflect.Int32, reflect.Int16, reflect.Int8:
		w, s, _ := intInfo(t)
		return Int{W: w, Signed: s, C: uint64(o.Int()) & mask(w)}
	case reflect.Uint, reflect.Uint64, reflect.Uint32, reflect.Uint16, reflect.Uint8:
		w, s, _ := intInfo(t)
		return Int{W: w, Signed: s, C: o.Uint() & mask(w)}
	case reflect.Float64:
		return Float{C: o.Float()}
	case reflect.Bool:
		return Bool{C: o.Bool()}
	case reflect.Slice:
		if o.Type().Elem().Kind() == reflect.String {
			d := make([]Value, o.Len())
			for i := range d {
				d[i] = Str{S: o.Index(i).String()}
			}
			if o.IsNil() {
				return Slice{Nil: true}
			}
			return Slice{Data: d}
		}
	case reflect.Interface:
		if o.IsNil() {
			return Iface{}
		}
		if e, ok := o.Interface().(error); ok {
			return x.mkError(e.Error())
		}
	}
	panic(fmt.Sprintf("fromNative: unsupported %v", o.Type()))
}

// parseFloatSym models strconv.ParseFloat on a string with symbolic bytes: executing the real
// Eisel-Lemire code symbolically is out of reach, so the result is an uninterpreted float of the bytes
// (sound for no-panic and differential properties; never equal to a particular value).
func (x *Exec) parseFloatSym(s Str) Value {
	x.stubsHit["strconv.ParseFloat (symbolic input: syntax decided by strconv.special/readFloat executed from their SSA; the value is an uninterpreted function of the bytes, so equal texts parse alike; range errors only considered for hex floats and decimal exponents >= 280)"] = true
	ts := make([]*Term, 0, s.Len())
	for _, b := range strBytes(s) {
		if b.Atom != 0 {
			unsupported("ParseFloat of an atom string")
		}
		ts = append(ts, x.term(b))
	}
	syntaxErr := func() Value {
		return ret2(Float{}, x.mkError("strconv.ParseFloat: parsing: invalid syntax"))
	}
	sp := x.prog.ImportedPackage("strconv")
	if sp == nil || sp.Func("readFloat") == nil || sp.Func("special") == nil {
		// no SSA for strconv: fall back to a free verdict
		ok := x.tt.UF(fmt.Sprintf("pf_ok%d", len(ts)), 0, ts...)
		if x.branch(ok) {
			v := x.tt.UF(fmt.Sprintf("pf_bits%d", len(ts)), 64, ts...)
			return ret2(Float{S: x.tt.FFromBits(v)}, Iface{})
		}
		return syntaxErr()
	}
	n := s.Len()
	// "inf", "infinity", "nan" (any case, optional sign)
	r := x.callSSA(sp.Func("special"), []Value{s}, nil).(Tuple)
	truth := func(b Value) bool { return x.branch(x.bterm(b.(Bool))) }
	lenIs := func(v Value) bool {
		t := x.term(v.(Int))
		return x.branch(x.tt.Cmp(OpEq, t, x.tt.Const(t.W, uint64(n))))
	}
	if truth(r[2]) {
		if lenIs(r[1]) {
			return ret2(r[0], Iface{})
		}
		return syntaxErr()
	}
	rf := x.callSSA(sp.Func("readFloat"), []Value{s}, nil).(Tuple)
	if !truth(rf[6]) || !lenIs(rf[5]) {
		return syntaxErr()
	}
	exp := rf[1].(Int)
	mayOverflow := truth(rf[4])
	if !mayOverflow {
		e := x.term(exp)
		mayOverflow = !x.branch(x.tt.Cmp(OpSlt, e, x.tt.Const(e.W, 280)))
	}
	if mayOverflow {
		rng := x.tt.UF(fmt.Sprintf("pf_range%d", len(ts)), 0, ts...)
		if x.branch(rng) {
			return ret2(Float{C: math.Inf(1)}, x.mkError("strconv.ParseFloat: parsing: value out of range"))
		}
	}
	v := x.tt.UF(fmt.Sprintf("pf_bits%d", len(ts)), 64, ts...)
	return ret2(Float{S: x.tt.FFromBits(v)}, Iface{})
}
