package main

import "time"

func init() {
	register(&PropSpec{
		ID: "C18",
		Jobs: func(tier string, seed int64) []Job {
			states := [][]string{
				{},
				{`x = a`},
				{`x = a`, `s = "str"`, `func f(n){n+1}`},
				{`m = {1: a, "k": [b, 2.5]}`, `y = b`, `z = [1, 2, 3]`, `lam = t => t * 2`},
			}
			news := [][]string{
				{`n1 = b`},
				{`x = b`, `n2 = [a, b]`},
				{`n3 = "new"`, `func g(u){u*u}`, `n4 = {a: b}`, `del(x)`},
				{},
			}
			if tier == "thorough" {
				states = append(states,
					[]string{`k1 = a`, `k2 = b`, `k3 = [a, b]`, `k4 = "four"`, `k5 = {1: a}`, `func k6(n){n*2}`, `k7 = 7.5`, `k8 = nil`},
					[]string{`big = [1,2,3,4,5,6,7,8,9,10,11,12]`, `bm = {1:1,2:2,3:3,4:4,5:5,6:a}`})
				news = append(news,
					[]string{`del(x)`, `del(s)`, `del(f)`},
					[]string{`q1 = a`, `q2 = b`, `q3 = a + b`, `q4 = [a]`, `q5 = "s"`, `func q6(){1}`, `q7 = {a: b}`, `q8 = true`})
			}
			var jobs []Job
			for _, p := range states {
				for _, n := range news {
					args := append([]string{}, p...)
					args = append(args, "--")
					args = append(args, n...)
					if tier == "thorough" {
						args = append(args, "16")
					} else {
						args = append(args, "9")
					}
					jobs = append(jobs, Job{Prop: "C18", Pkg: "repl", Func: "VerifAutoSave", Args: args, MaxDec: 800})
				}
			}
			// long lines: functions beyond the value-length limit, strings just under it, bindings sorted after them
			for _, a := range [][]string{{"0", "300", "200"}, {"50", "400", "40"}, {"100", "500", "90"}, {"20", "30", "15"}, {"64", "5000", "60"}, {"0", "30", "3000"}} {
				jobs = append(jobs, Job{Prop: "C18", Pkg: "repl", Func: "VerifAutoSaveLong", Args: a, MaxDec: 400, MaxSteps: 60_000_000})
			}
			// histories: a save that died earlier (leftover temporary files), then a smaller state saved; a save whose
			// temporary file vanishes before the rename
			for _, h := range [][]string{
				{`x = a`, `s = "str"`, "--", `big = [1,2,3,4,5,6,7,8,9,10,11,12]`, `t = "a rather long string value"`, "--", `del(big)`, `del(t)`, `x = 0`},
				{`x = a`, "--", `y = "` + "yyyyyyyyyyyyyyyyyyyyyyyyyyyyyyyyyyyyyyyy" + `"`, `z = {1: a, 2: [b, b, b]}`, "--", `del(y)`, `del(z)`},
				{"--", `x = a`, `func f(n){n+1}`, `w = "wwwwwwwwwwwwwwwwwwww"`, "--", `del(w)`, `del(f)`},
				{`m = {1: a}`, "--", `m = {1: a, 2: a, 3: a, 4: a, 5: a, 6: a}`, "--", `m = {}`},
			} {
				for _, mode := range []string{"plain", "renamefails"} {
					args := append(append([]string{}, h...), "12", mode)
					jobs = append(jobs, Job{Prop: "C18", Pkg: "repl", Func: "VerifAutoSaveHistory", Args: args, MaxDec: 800})
				}
			}
			return jobs
		},
		Budget: map[string]time.Duration{"quick": 6 * time.Minute, "thorough": 30 * time.Minute},
		Reach:  []string{"killed during auto-save", "auto-save completed", "second save killed", "third save completed", "save with a vanished temporary file", "long state reloaded"},
		Bounds: map[string]interface{}{"states": "previous state of 0, 1, 3 and 4 bindings x new state adding/changing/deleting 0..4 bindings (16 combinations; thorough: 6 previous states up to 8 bindings x 6 changes up to 8 bindings, crash points up to 16), values a, b all int64",
			"long_lines": "6 states with a named function of 30..5000 bytes and a string of 15..3000 bytes under value-length limits 0, 20, 50, 64, 100: what auto-save wrote auto-load restores", "histories": "4 histories of three sessions: a crash-free save, a save of a larger state killed at every crash point 0..12 (leftover temporary files), then a save of a smaller state that completes - or whose temporary file vanishes before the rename (a failed save)", "crash_points": "every crash point: before and after creating the temporary file, after each written binding, after the last write, after the rename (index -1 = no crash .. 9)"},
		Assumptions: []string{"crash points are the build-tag-guarded hook calls in repl.AutoSave and object.SaveGlobals (commit 04499b7): the process 'dies' by a panic raised from the hook, which the code under test does not recover",
			"file-system model: rename within one directory is atomic; bytes accepted by Write survive the death of the process; no fsync / power-loss modelling; write failures are not injected (no native counterpart)"},
		Outside: []string{"lines longer than 5000 bytes (auto-load reads the state file with a line scanner whose 64 KiB limit is beyond what the executor can carry: a binding longer than that stops the load silently - reported by a sub-agent, not decided here)", "power loss, fsync ordering", "crashes inside a single Write call"},
	})
}
