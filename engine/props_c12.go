package main

import "time"

func init() {
	register(&PropSpec{
		ID: "C12",
		Jobs: func(tier string, seed int64) []Job {
			j := func(a, b, c string) Job {
				return Job{Prop: "C12", Pkg: "object", Func: "VerifCmpLaws", Args: []string{a, b, c}}
			}
			var jobs []Job
			scal := []string{"I", "F", "B", "N", "S"}
			for _, a := range scal {
				for _, b := range scal {
					for _, c := range scal {
						jobs = append(jobs, j(a, b, c))
					}
				}
			}
			all := []string{"I", "F", "B", "N", "S", "A", "AF", "M", "U", "E", "X", "Q", "C"}
			for _, a := range all {
				for _, b := range all {
					if len(a) == 1 && len(b) == 1 && a[0] != 'A' && b[0] != 'A' && isScalarKind(a) && isScalarKind(b) {
						continue // covered by the scalar triples
					}
					jobs = append(jobs, j(a, b, a))
				}
			}
			// two-pair maps in both representations (every arrangement of a triple), maps keyed by functions and large arrays
			for _, t := range [][3]string{{"P", "P", "P"}, {"P", "P", "G"}, {"P", "G", "P"}, {"G", "P", "P"}, {"G", "G", "P"}, {"G", "P", "G"}, {"P", "G", "G"}, {"G", "G", "G"}} {
				jobs = append(jobs, j(t[0], t[1], t[2]))
			}
			for _, a := range []string{"H", "J", "L"} {
				for _, b := range []string{"H", "J", "L", "M", "P", "A", "U"} {
					jobs = append(jobs, j(a, b, a), j(b, a, b))
				}
			}
			if tier == "thorough" {
				cont := []string{"A", "AF", "M", "I", "F"}
				for _, a := range cont {
					for _, b := range cont {
						for _, c := range cont {
							if isScalarKind(a) && isScalarKind(b) && isScalarKind(c) {
								continue
							}
							jobs = append(jobs, j(a, b, c))
						}
					}
				}
			}
			return jobs
		},
		Budget:    map[string]time.Duration{"quick": 12 * time.Minute, "thorough": 60 * time.Minute},
		TimeoutMs: map[string]int{"quick": 60000, "thorough": 120000},
		Reach:     []string{"transitivity premise", "equal pair"},
		Bounds: map[string]interface{}{"scalars": "all int64, all float64 bit patterns (incl. -0, NaN, infinities, subnormals), both booleans, nil, strings of 0..2 arbitrary bytes",
			"kind_triples": "all 125 triples over {Integer, Float, Boolean, Nil, String}; all ordered pairs over 13 kinds (scalars, arrays of 0..2 integers or floats, maps of 0..1 pair, function, error, extension, quote, macro) as (a,b,a'); thorough adds all triples over {int array, float array, map, Integer, Float}",
			"containers":   "arrays of at most 2 elements, maps of at most 1 pair, no nesting"},
		Outside: []string{"containers larger than 2 elements or nested", "strings longer than 2 bytes", "min/max/sort extension callbacks (they call the same Cmp)"},
	})
}

func isScalarKind(k string) bool {
	switch k {
	case "I", "F", "B", "N", "S":
		return true
	}
	return false
}
