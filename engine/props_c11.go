package main

import (
	"sort"
	"strings"
	"time"
)

// c11Cost orders the jobs: language-level programs, then integer and container keys, then the float families.
func c11Cost(j Job) int {
	switch {
	case j.Func == "VerifMapEval":
		return 0
	case strings.Contains(j.Args[1], "F") || strings.Contains(j.Args[3], "F"):
		return 2
	}
	return 1
}

func init() {
	register(&PropSpec{
		ID: "C11",
		Jobs: func(tier string, seed int64) []Job {
			var jobs []Job
			j := func(repr, kinds, op, arg string) {
				if kinds == "" {
					kinds = "-"
				}
				jobs = append(jobs, Job{Prop: "C11", Pkg: "object", Func: "VerifMapStep", Args: []string{repr, kinds, op, arg}})
			}
			maxBig := 6
			if tier == "thorough" {
				maxBig = 9
			}
			for _, repr := range []string{"small", "big"} {
				maxM := 4
				if repr == "big" {
					maxM = maxBig
				}
				for m := 0; m <= maxM; m++ {
					ints := strings.Repeat("I", m)
					for _, op := range []string{"set", "get", "delete"} {
						j(repr, ints, op, "I")
					}
					for _, right := range []string{"", "I", "II", "III", "IIIII"} {
						if m+len(right) > 9 && tier != "thorough" {
							continue
						}
						j(repr, ints, "append", right)
					}
					j(repr, ints, "first", "-")
					j(repr, ints, "rest", "-")
					j(repr, ints, "range", "-")
					// mixed key types in type order (Integer/Float compare numerically, the rest by type)
					mixed := "IFBNSA"
					if m <= 5 && m > 0 {
						mk := mixed[:m]
						if m > 2 && tier != "thorough" {
							mk = "I" + mixed[2:m+1] // one numeric key only: keeps FP queries cheap in the quick tier
						}
						for _, arg := range []string{"I", "S", "B", "N", "A"} {
							j(repr, mk, "set", arg)
							j(repr, mk, "delete", arg)
							j(repr, mk, "get", arg)
						}
						j(repr, mk, "rest", "-")
						j(repr, mk, "range", "-")
					}
					// container keys of different sizes (their order looks at the sizes first)
					if m >= 1 && m <= 4 {
						ck := "EATW"[:m]
						if repr == "big" {
							ck = "EATWMQ"[:min(m+2, 6)]
						}
						for _, arg := range []string{"E", "A", "T", "W", "M", "Q"} {
							j(repr, ck, "set", arg)
							j(repr, ck, "get", arg)
							j(repr, ck, "delete", arg)
						}
						j(repr, ck, "rest", "-")
						j(repr, ck, "append", "EW")
					}
					// Integer and Float keys interleaved numerically
					lim := 2
					if tier == "thorough" {
						lim = 4
					}
					if m > 0 && m <= lim {
						ifk := strings.Repeat("IF", m)[:m]
						j(repr, ifk, "set", "F")
						j(repr, ifk, "set", "I")
						j(repr, ifk, "get", "F")
						j(repr, ifk, "delete", "I")
					}
				}
			}
			// language-level programs: values of every kind (nil, zero, false, empty included), keys colliding in every way
			vals := []string{"nil", "0", "false", `""`, "[]", "{}", "1.5", `"s"`}
			for i, v1 := range vals {
				for _, opseq := range []string{"del", "del,del", "set,del", "merge,del", "del,set", "set,merge,del", "del,merge"} {
					v2, v3 := vals[(i+1)%len(vals)], vals[(i+3)%len(vals)]
					jobs = append(jobs, Job{Prop: "C11", Pkg: "eval", Func: "VerifMapEval", Args: []string{v1, v2, v3, opseq}, MaxDec: 600})
					jobs = append(jobs, Job{Prop: "C11", Pkg: "eval", Func: "VerifMapEval", Args: []string{v1, v1, "nil", opseq}, MaxDec: 600})
				}
			}
			// cheap families first: a run cut by its budget loses the expensive floating-point families last
			sort.SliceStable(jobs, func(i, j int) bool { return c11Cost(jobs[i]) < c11Cost(jobs[j]) })
			return jobs
		},
		Budget:    map[string]time.Duration{"quick": 12 * time.Minute, "thorough": 60 * time.Minute},
		TimeoutMs: map[string]int{"quick": 60000, "thorough": 120000},
		Reach:     []string{"promoted to big map", "lookup hit", "entry deleted"},
		Bounds: map[string]interface{}{"language_level": "112 programs: a 5-entry and a 2-entry map literal whose keys a, b are symbolic in 0..4 (colliding in every way) and whose values are nil, 0, false, the empty string / array / map, a float, a string; sequences of del / index assignment / + with key c; after each step del's result, len and the three lookups equal those of a reference finite map", "container_keys": "keys that are arrays of 0, 1, 2, 3 elements and maps of 1 and 3 pairs", "pre_state": "any valid SmallMap with 0..4 pairs and any valid BigMap with 0..6 pairs (9 thorough), keys symbolic and assumed strictly increasing under the real Cmp (one inductive step: covers histories of any length provided the invariant is the one the code maintains, which every operation is checked to re-establish)",
			"keys":       "all int64 keys; mixed-type keys Integer/Float/Boolean/Nil/String(1 byte)/Array(1 int); interleaved Integer/Float keys for <=2 pairs (4 thorough); NaN keys excluded (documented)",
			"operations": "Set, Get, Delete, Append (right operand 0,1,2,3,5 pairs), First, Rest, Range(l,r) for every 0<=l<=r<=len"},
		Assumptions: []string{"Cmp is a strict weak order on the key universe (decided by C12)"},
		Outside:     []string{"maps larger than the bound", "NaN keys", "nested map keys"},
	})
}
