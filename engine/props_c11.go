package main

import (
	"strings"
	"time"
)

func init() {
	register(&PropSpec{
		ID: "C11",
		Jobs: func(tier string, seed int64) []Job {
			var jobs []Job
			j := func(repr, kinds, op, arg string) {
				if kinds == "" {
					kinds = "-"
				}
				jobs = append(jobs, Job{Prop: "C11", Pkg: "object", Func: "VerifMapStep", Args: []string{repr, kinds, op, arg}})
			}
			maxBig := 6
			if tier == "thorough" {
				maxBig = 9
			}
			for _, repr := range []string{"small", "big"} {
				maxM := 4
				if repr == "big" {
					maxM = maxBig
				}
				for m := 0; m <= maxM; m++ {
					ints := strings.Repeat("I", m)
					for _, op := range []string{"set", "get", "delete"} {
						j(repr, ints, op, "I")
					}
					for _, right := range []string{"", "I", "II", "III", "IIIII"} {
						if m+len(right) > 9 && tier != "thorough" {
							continue
						}
						j(repr, ints, "append", right)
					}
					j(repr, ints, "first", "-")
					j(repr, ints, "rest", "-")
					j(repr, ints, "range", "-")
					// mixed key types in type order (Integer/Float compare numerically, the rest by type)
					mixed := "IFBNSA"
					if m <= 5 && m > 0 {
						mk := mixed[:m]
						if m > 2 && tier != "thorough" {
							mk = "I" + mixed[2:m+1] // one numeric key only: keeps FP queries cheap in the quick tier
						}
						for _, arg := range []string{"I", "S", "B", "N", "A"} {
							j(repr, mk, "set", arg)
							j(repr, mk, "delete", arg)
							j(repr, mk, "get", arg)
						}
						j(repr, mk, "rest", "-")
						j(repr, mk, "range", "-")
					}
					// Integer and Float keys interleaved numerically
					lim := 2
					if tier == "thorough" {
						lim = 4
					}
					if m > 0 && m <= lim {
						ifk := strings.Repeat("IF", m)[:m]
						j(repr, ifk, "set", "F")
						j(repr, ifk, "set", "I")
						j(repr, ifk, "get", "F")
						j(repr, ifk, "delete", "I")
					}
				}
			}
			return jobs
		},
		Budget:    map[string]time.Duration{"quick": 6 * time.Minute, "thorough": 60 * time.Minute},
		TimeoutMs: map[string]int{"quick": 60000, "thorough": 120000},
		Reach:     []string{"promoted to big map", "lookup hit", "entry deleted"},
		Bounds: map[string]interface{}{"pre_state": "any valid SmallMap with 0..4 pairs and any valid BigMap with 0..6 pairs (9 thorough), keys symbolic and assumed strictly increasing under the real Cmp (one inductive step: covers histories of any length provided the invariant is the one the code maintains, which every operation is checked to re-establish)",
			"keys":       "all int64 keys; mixed-type keys Integer/Float/Boolean/Nil/String(1 byte)/Array(1 int); interleaved Integer/Float keys for <=2 pairs (4 thorough); NaN keys excluded (documented)",
			"operations": "Set, Get, Delete, Append (right operand 0,1,2,3,5 pairs), First, Rest, Range(l,r) for every 0<=l<=r<=len"},
		Assumptions: []string{"Cmp is a strict weak order on the key universe (decided by C12)"},
		Outside:     []string{"maps larger than the bound", "NaN keys", "nested map keys"},
	})
}
