package main

import (
	"sync/atomic"
	"fmt"
	"go/constant"
	"go/types"
	"sync"
	"time"

	"golang.org/x/tools/go/ssa"
)

// goPanic is a Go-level panic raised by the program under execution.
type goPanic struct {
	msg  string
	val  Value
	site string // function in which it was raised
	rt   bool   // raised by the runtime semantics (not an explicit panic())
}

// pathEnd terminates the current path without a verdict on it (infeasible, assumption, unsupported, bound).
type pathEnd struct{ reason string }

// ---- compiled functions: operands pre-resolved to frame slots

type opnd struct {
	slot int // >=0 env slot; -1 constant v; -2 global g; -3 fresh copy of aggregate constant v
	v    Value
	g    *ssa.Global
}

type cinstr struct {
	in  ssa.Instruction
	dst int
	ops []opnd
}

type cblock struct {
	b    *ssa.BasicBlock
	phis []cinstr // ops = edges
	ins  []cinstr
}

type cfunc struct {
	fn       *ssa.Function
	nslots   int
	blocks   []*cblock
	params   []int
	freevars []int
	hasDefer bool
	recover  *cblock
}

var cfuncs sync.Map

func compile(fn *ssa.Function) *cfunc {
	if v, ok := cfuncs.Load(fn); ok {
		return v.(*cfunc)
	}
	cf := &cfunc{fn: fn}
	idx := map[ssa.Value]int{}
	add := func(v ssa.Value) int {
		idx[v] = cf.nslots
		cf.nslots++
		return cf.nslots - 1
	}
	for _, p := range fn.Params {
		cf.params = append(cf.params, add(p))
	}
	for _, fv := range fn.FreeVars {
		cf.freevars = append(cf.freevars, add(fv))
	}
	for _, b := range fn.Blocks {
		for _, in := range b.Instrs {
			if v, ok := in.(ssa.Value); ok {
				add(v)
			}
			if _, ok := in.(*ssa.Defer); ok {
				cf.hasDefer = true
			}
		}
	}
	mkop := func(v ssa.Value) opnd {
		switch v := v.(type) {
		case nil:
			return opnd{slot: -1, v: nil}
		case *ssa.Const:
			val := constVal(v)
			switch val.(type) {
			case Struct, Array:
				return opnd{slot: -3, v: val}
			}
			return opnd{slot: -1, v: val}
		case *ssa.Global:
			return opnd{slot: -2, g: v}
		case *ssa.Function:
			return opnd{slot: -1, v: Func{v}}
		case *ssa.Builtin:
			return opnd{slot: -1, v: Builtin{v}}
		}
		i, ok := idx[v]
		if !ok {
			panic(fmt.Sprintf("compile: no slot for %s in %s", v.Name(), fn))
		}
		return opnd{slot: i}
	}
	cf.blocks = make([]*cblock, len(fn.Blocks))
	for bi, b := range fn.Blocks {
		cb := &cblock{b: b}
		for _, in := range b.Instrs {
			ci := cinstr{in: in, dst: -1}
			if v, ok := in.(ssa.Value); ok {
				ci.dst = idx[v]
			}
			var rands [16]*ssa.Value
			for _, r := range in.Operands(rands[:0]) {
				if r == nil {
					ci.ops = append(ci.ops, opnd{slot: -1})
					continue
				}
				ci.ops = append(ci.ops, mkop(*r))
			}
			if _, ok := in.(*ssa.Phi); ok {
				cb.phis = append(cb.phis, ci)
			} else {
				cb.ins = append(cb.ins, ci)
			}
		}
		cf.blocks[bi] = cb
	}
	if fn.Recover != nil {
		cf.recover = cf.blocks[fn.Recover.Index]
	}
	v, _ := cfuncs.LoadOrStore(fn, cf)
	return v.(*cfunc)
}

func constVal(c *ssa.Const) Value {
	t := c.Type()
	if c.Value == nil {
		if _, ok := t.Underlying().(*types.TypeParam); ok {
			panic(pathEnd{"unsupported: typeparam const"})
		}
		return zero(t)
	}
	if w, s, ok := intInfo(t); ok {
		var u uint64
		ci := constant.ToInt(c.Value)
		if i, exact := constant.Int64Val(ci); exact {
			u = uint64(i)
		} else {
			u, _ = constant.Uint64Val(ci)
		}
		return Int{W: w, Signed: s, C: u & mask(w)}
	}
	if b, ok := t.Underlying().(*types.Basic); ok {
		switch {
		case b.Info()&types.IsBoolean != 0:
			return Bool{C: constant.BoolVal(c.Value)}
		case b.Info()&types.IsString != 0:
			return Str{S: constant.StringVal(c.Value)}
		case b.Info()&types.IsFloat != 0:
			f, _ := constant.Float64Val(c.Value)
			if b.Kind() == types.Float32 {
				return Float{C: float64(float32(f)), F32: true}
			}
			return Float{C: f}
		}
	}
	panic(pathEnd{fmt.Sprintf("unsupported: const %v : %v", c, t)})
}

// ---- executor state

type undoRec struct {
	p   *Value
	old Value
	m   *MapObj
	mop uint8 // 1: insert (pop last), 2: overwrite value at i, 3: delete at i (revive)
	i   int
}

type deferred struct {
	fn   Value
	args []Value
	inv  *ssa.CallCommon
}

type frame struct {
	x         *Exec
	cf        *cfunc
	env       []Value
	block     *cblock
	prev      *ssa.BasicBlock
	defers    []deferred
	panicking *goPanic
	caller    *frame
	idx       int
}

// NondetVal records one nondeterministic input of the path, in call order.
type NondetVal struct {
	Tag  string
	Kind string // i64 u8 bool f64 range
	T    *Term  // nil for concrete (range) choices
	C    uint64
}

type Violation struct {
	Label   string
	Panic   bool
	Nondet  []NondetVal
	Values  []uint64 // concrete values for Nondet under the counterexample model
	Reaches []string
}

type Exec struct {
	prog    *ssa.Program
	tt      *TermTable
	solver  *Solver
	globals map[*ssa.Global]*Value
	pkgInit map[*ssa.Package]bool

	// path state
	pc        []*Term
	model     Model
	decisions []uint64 // prefix to replay
	dpos      int
	taken     []uint64
	fork      func(prefix []uint64) // pushes an alternative
	nvars     int
	symVars   []*Term
	nondet    []NondetVal
	Steps     int64
	maxSteps  int64
	maxDec    int
	bind      map[*Term]*Term
	simpCache map[*Term]*Term

	undo          []undoRec
	freshDepth    int
	logUndo       bool
	deferStack    []*frame
	cur           *frame
	cstack        []*frame
	lastRecovered *goPanic
	pathDeadline  time.Time
	stubs         map[string]*ssa.Function
	stubOff       map[string]bool
	stubOn        map[string]bool

	violations                 []Violation
	reaches                    []string
	unknownQ                   int
	stubsHit                   map[string]bool
	funcsRun                   map[*ssa.Function]bool
	assumes                    map[string]bool
	notes                      []string // per-path notes (e.g. atom concretisation)
	fs                         *fsModel
	methCache                  map[methKey]*ssa.Function
	env                        map[string]Value // per-path scratch for models
	atoms                      bool
	sentinels                  map[string]Value
	nAssertUnsat, nAssertConst int64
	mapOrders                  bool
}

type methKey struct {
	t    types.Type
	name string
}

func NewExec(prog *ssa.Program, solverBin string, timeoutMs int) *Exec {
	return &Exec{prog: prog, tt: NewTermTable(), solver: NewSolver(solverBin, timeoutMs),
		globals: map[*ssa.Global]*Value{}, pkgInit: map[*ssa.Package]bool{},
		stubsHit: map[string]bool{}, funcsRun: map[*ssa.Function]bool{}, assumes: map[string]bool{},
		methCache: map[methKey]*ssa.Function{}, maxSteps: 20_000_000, maxDec: 2000}
}

func (x *Exec) resetPath(decisions []uint64) {
	x.pc = x.pc[:0]
	x.model = nil
	x.decisions, x.dpos, x.taken = decisions, 0, x.taken[:0]
	x.nvars, x.symVars, x.nondet = 0, nil, nil
	x.Steps = 0
	x.bind, x.simpCache = nil, nil
	x.deferStack, x.cur, x.cstack = nil, nil, x.cstack[:0]
	x.lastRecovered = nil
	x.pathDeadline = time.Now().Add(90 * time.Second)
	x.violations, x.reaches, x.notes = nil, nil, nil
	x.unknownQ = 0
	x.nAssertUnsat, x.nAssertConst = 0, 0
	x.fs = nil
	x.env = nil
	x.freshDepth = 0
}

func (x *Exec) freshVar(tag string, w int) *Term {
	x.nvars++
	v := x.tt.Var(fmt.Sprintf("v%d_%s_w%d", x.nvars, sanitizeTag(tag), w), w)
	x.symVars = append(x.symVars, v)
	return v
}

func sanitizeTag(s string) string {
	b := []byte(s)
	for i, c := range b {
		if !(c >= 'a' && c <= 'z' || c >= 'A' && c <= 'Z' || c >= '0' && c <= '9' || c == '_') {
			b[i] = '_'
		}
	}
	if len(b) > 24 {
		b = b[:24]
	}
	return string(b)
}

func goPanicf(format string, args ...interface{}) {
	panic(goPanic{msg: fmt.Sprintf(format, args...), rt: true})
}

func unsupported(format string, args ...interface{}) {
	panic(pathEnd{"unsupported: " + fmt.Sprintf(format, args...)})
}

// ---- path condition, simplification under equalities

func (x *Exec) addPC(c *Term) {
	x.pc = append(x.pc, c)
	x.learn(c)
}

// learn records var = const facts implied by a newly asserted constraint.
func (x *Exec) learn(c *Term) {
	set := func(v, k *Term) {
		if x.bind == nil {
			x.bind = map[*Term]*Term{}
		}
		if _, ok := x.bind[v]; !ok {
			x.bind[v] = k
			x.simpCache = nil
		}
	}
	switch c.Op {
	case OpVar:
		set(c, x.tt.tru)
	case OpNot:
		if c.Args[0].Op == OpVar {
			set(c.Args[0], x.tt.fls)
		}
	case OpEq:
		a, b := c.Args[0], c.Args[1]
		if a.Op == OpVar && b.IsConst() {
			set(a, b)
		} else if b.Op == OpVar && a.IsConst() {
			set(b, a)
		}
	case OpAnd:
		x.learn(c.Args[0])
		x.learn(c.Args[1])
	}
}

// simp rewrites t under the equalities learnt on this path.
func (x *Exec) simp(t *Term) *Term {
	if len(x.bind) == 0 || t.Op == OpConst || t.Op == OpFConst {
		return t
	}
	if x.simpCache == nil {
		x.simpCache = map[*Term]*Term{}
	}
	return x.simpRec(t)
}

func (x *Exec) simpRec(t *Term) *Term {
	if t.Op == OpConst || t.Op == OpFConst {
		return t
	}
	if r, ok := x.simpCache[t]; ok {
		return r
	}
	var r *Term
	if t.Op == OpVar {
		if k, ok := x.bind[t]; ok {
			r = k
		} else {
			r = t
		}
		x.simpCache[t] = r
		return r
	}
	changed := false
	var args [3]*Term
	var as []*Term
	if len(t.Args) <= 3 {
		as = args[:len(t.Args)]
	} else {
		as = make([]*Term, len(t.Args))
	}
	for i, a := range t.Args {
		as[i] = x.simpRec(a)
		if as[i] != a {
			changed = true
		}
	}
	if !changed {
		r = t
	} else {
		r = x.rebuild(t, as)
	}
	x.simpCache[t] = r
	return r
}

// rebuild re-applies t's constructor to new arguments (with folding).
func (x *Exec) rebuild(t *Term, a []*Term) *Term {
	tt := x.tt
	switch t.Op {
	case OpBvAdd, OpBvSub, OpBvMul, OpBvAnd, OpBvOr, OpBvXor, OpBvShl, OpBvLshr, OpBvAshr, OpBvUdiv, OpBvUrem, OpBvSdiv, OpBvSrem:
		return tt.Bin(t.Op, a[0], a[1])
	case OpBvNot:
		return tt.BvNot(a[0])
	case OpBvNeg:
		return tt.BvNeg(a[0])
	case OpExtract:
		if a[0].IsConst() {
			return tt.Const(t.W, a[0].K>>uint(t.P2))
		}
		return tt.intern(&Term{Op: OpExtract, W: t.W, Args: []*Term{a[0]}, P1: t.P1, P2: t.P2})
	case OpZext:
		return tt.Resize(a[0], t.W, false)
	case OpSext:
		return tt.Resize(a[0], t.W, true)
	case OpEq:
		if a[0].W == 0 {
			return tt.BoolEq(a[0], a[1])
		}
		return tt.Cmp(OpEq, a[0], a[1])
	case OpUlt, OpUle, OpSlt, OpSle:
		return tt.Cmp(t.Op, a[0], a[1])
	case OpNot:
		return tt.Not(a[0])
	case OpAnd:
		return tt.And(a[0], a[1])
	case OpOr:
		return tt.Or(a[0], a[1])
	case OpIte:
		return tt.Ite(a[0], a[1], a[2])
	case OpFAdd, OpFSub, OpFMul, OpFDiv:
		return tt.FBin(t.Op, a[0], a[1])
	case OpFNeg:
		return tt.FNeg(a[0])
	case OpFAbs:
		return tt.FAbs(a[0])
	case OpFEq, OpFLt, OpFLe:
		return tt.FCmp(t.Op, a[0], a[1])
	case OpFIsNaN:
		return tt.FIsNaN(a[0])
	case OpFFromBits:
		return tt.FFromBits(a[0])
	case OpFFromSInt:
		return tt.IntToFloat(a[0], true)
	case OpFFromUInt:
		return tt.IntToFloat(a[0], false)
	case OpFToSInt:
		return tt.FloatToInt(a[0], t.W)
	case OpFToF32:
		return tt.FToF32(a[0])
	}
	return tt.intern(&Term{Op: t.Op, W: t.W, Args: append([]*Term{}, a...), K: t.K, Name: t.Name, P1: t.P1, P2: t.P2})
}

// feasible decides whether pc ∧ c is satisfiable; returns 1/0/-1 and a model for that side when known.
func (x *Exec) feasible(c *Term) (int, Model) {
	if c.IsTrue() {
		return 1, x.model
	}
	if c.IsFalse() {
		return 0, nil
	}
	if x.model != nil {
		if v, ok := x.model.Eval(c, map[*Term]uint64{}); ok && v == 1 {
			return 1, x.model
		}
	}
	res, m := x.solver.Check(x.pc, c, x.symVars)
	if res == -1 {
		x.unknownQ++
	}
	return res, m
}

// branch decides a symbolic condition, forking when both sides are feasible.
func (x *Exec) branch(c *Term) bool {
	c = x.simp(c)
	if c.IsTrue() {
		return true
	}
	if c.IsFalse() {
		return false
	}
	if x.dpos < len(x.decisions) {
		d := x.decisions[x.dpos]
		x.dpos++
		x.taken = append(x.taken, d)
		if d == 1 {
			x.addPC(c)
			return true
		}
		x.addPC(x.tt.Not(c))
		return false
	}
	if len(x.taken) >= x.maxDec {
		panic(pathEnd{"bound-exceeded: decisions"})
	}
	if !x.pathDeadline.IsZero() && time.Now().After(x.pathDeadline) {
		panic(pathEnd{"bound-exceeded: path time"})
	}
	nc := x.tt.Not(c)
	rt, mt := x.feasible(c)
	rf, mf := x.feasible(nc)
	if rt == 0 && rf == 0 {
		panic(pathEnd{"infeasible"})
	}
	x.dpos++
	if rt != 0 && rf != 0 {
		alt := make([]uint64, len(x.taken)+1)
		copy(alt, x.taken)
		alt[len(x.taken)] = 0
		x.fork(alt)
	}
	if rt != 0 {
		x.taken = append(x.taken, 1)
		x.addPC(c)
		x.model = mt
		return true
	}
	x.taken = append(x.taken, 0)
	x.addPC(nc)
	x.model = mf
	return false
}

// choose makes an n-way concrete choice (no solver): returns a value in [0,n).
func (x *Exec) choose(n int) int {
	if n <= 1 {
		return 0
	}
	if x.dpos < len(x.decisions) {
		d := x.decisions[x.dpos]
		x.dpos++
		x.taken = append(x.taken, d)
		return int(d)
	}
	x.dpos++
	for v := n - 1; v >= 1; v-- {
		alt := make([]uint64, len(x.taken)+1)
		copy(alt, x.taken)
		alt[len(x.taken)] = uint64(v)
		x.fork(alt)
	}
	x.taken = append(x.taken, 0)
	return 0
}

// modelValue returns some feasible value of t under the path condition (logged for deterministic replay).
func (x *Exec) modelValue(t *Term) (uint64, bool) {
	if x.dpos < len(x.decisions) {
		v := x.decisions[x.dpos]
		x.dpos++
		x.taken = append(x.taken, v)
		return v, true
	}
	var v uint64
	ok := false
	if x.model != nil {
		v, ok = x.model.Eval(t, map[*Term]uint64{})
	}
	if !ok {
		res, m := x.solver.Check(x.pc, x.tt.tru, x.symVars)
		if res != 1 {
			return 0, false
		}
		x.model = m
		v, ok = m.Eval(t, map[*Term]uint64{})
		if !ok {
			v, ok = x.solver.Value(x.pc, t)
			if !ok {
				return 0, false
			}
		}
	}
	x.dpos++
	x.taken = append(x.taken, v)
	return v, true
}

// concretizeSmall enumerates the values 0..limit-1 of a symbolic size in increasing order (sizes beyond are
// a stated bound: the path ends as bound-exceeded).
func (x *Exec) concretizeSmall(i Int, what string, limit int) int64 {
	if i.S == nil {
		return i.conc()
	}
	t := x.simp(i.S)
	if t.IsConst() {
		return Int{W: i.W, Signed: i.Signed, C: t.K}.conc()
	}
	for v := 0; v < limit; v++ {
		if x.branch(x.tt.Cmp(OpEq, t, x.tt.Const(t.W, uint64(v)))) {
			return int64(v)
		}
	}
	panic(pathEnd{fmt.Sprintf("bound-exceeded: symbolic %s above %d not explored", what, limit-1)})
}

// concretize forks over the feasible values of a symbolic integer and returns a concrete one.
func (x *Exec) concretize(i Int, what string, limit int) int64 {
	if i.S == nil {
		return i.conc()
	}
	t := x.simp(i.S)
	if t.IsConst() {
		return Int{W: i.W, Signed: i.Signed, C: t.K}.conc()
	}
	for n := 0; ; n++ {
		if n > limit {
			panic(pathEnd{"bound-exceeded: too many values for symbolic " + what})
		}
		v, ok := x.modelValue(t)
		if !ok {
			panic(pathEnd{"infeasible"})
		}
		if x.branch(x.tt.Cmp(OpEq, t, x.tt.Const(t.W, v))) {
			return Int{W: i.W, Signed: i.Signed, C: v & mask(i.W)}.conc()
		}
	}
}

// ---- heap writes with undo

// abortAll is set by the memory watchdog: every path ends at its next basic block.
var abortAll int32

// maxUndo bounds the undo log of one path (16 workers: a runaway loop must not exhaust the machine's memory).
const maxUndo = 2_000_000

func (x *Exec) store(p *Value, v Value) {
	if x.logUndo {
		if len(x.undo) >= maxUndo {
			panic(pathEnd{"bound-exceeded: steps"}) // same class as the step bound: a path that never settles
		}
		x.undo = append(x.undo, undoRec{p: p, old: *p})
	}
	*p = v
}

// assign stores v into cell p keeping interior pointers into aggregates valid.
func (x *Exec) assign(p *Value, v Value) {
	switch nv := v.(type) {
	case Struct:
		if old, ok := (*p).(Struct); ok && len(old) == len(nv) {
			for i := range nv {
				x.assign(&old[i], nv[i])
			}
			return
		}
		x.store(p, copyVal(v))
		return
	case Array:
		if old, ok := (*p).(Array); ok && len(old) == len(nv) {
			for i := range nv {
				x.assign(&old[i], nv[i])
			}
			return
		}
		x.store(p, copyVal(v))
		return
	}
	x.store(p, v)
}

func (x *Exec) rollback() {
	for i := len(x.undo) - 1; i >= 0; i-- {
		u := x.undo[i]
		if u.p != nil {
			*u.p = u.old
			continue
		}
		u.m.undo(u)
	}
	x.undo = x.undo[:0]
}

// ---- "in a fresh process": run a harness helper on the heap as it was when the path started
//
// vFresh(name, args) calls verifFresh_<name>(args) after every heap, map and package-variable write made so far
// on this path has been undone (package initialisation stays), and puts all of it back afterwards. The helper
// sees exactly the state a newly started process has; natively the prelude gets the same by re-executing the
// test binary. Only immutable values (the strings in args, the string result) cross the boundary.

type redoRec struct {
	u   undoRec
	cur Value
	key Value
}

func (x *Exec) freshRun(pkg *ssa.Package, name string, args Slice) Value {
	fn := pkg.Func("verifFresh_" + name)
	if fn == nil {
		unsupported("vFresh: no function verifFresh_%s", name)
	}
	vals := make([]Value, len(args.Data))
	for i, a := range args.Data {
		st, ok := a.(Str)
		if !ok {
			unsupported("vFresh: argument %d is not a string", i)
		}
		vals[i] = st
	}
	saved := x.undo
	var redo []redoRec
	for i := len(saved) - 1; i >= 0; i-- {
		u := saved[i]
		if u.p != nil {
			redo = append(redo, redoRec{u: u, cur: *u.p})
			*u.p = u.old
			continue
		}
		switch u.mop {
		case 1:
			n := len(u.m.Keys) - 1
			redo = append(redo, redoRec{u: u, key: u.m.Keys[n], cur: u.m.Vals[n]})
		case 2:
			redo = append(redo, redoRec{u: u, cur: u.m.Vals[u.i]})
		default:
			redo = append(redo, redoRec{u: u})
		}
		u.m.undo(u)
	}
	x.undo = nil
	x.freshDepth++
	var res Value
	func() {
		defer func() {
			if r := recover(); r != nil {
				if pe, ok := r.(pathEnd); ok {
					panic(pe)
				}
				// the heap is the helper's, not the path's: nothing after this point can be trusted
				panic(pathEnd{fmt.Sprintf("panic inside a vFresh helper: %v", r)})
			}
		}()
		res = x.callSSA(fn, []Value{Slice{Data: vals}}, nil)
	}()
	x.freshDepth--
	// undo what the helper wrote, then put the path's own writes back in their original order
	x.rollback()
	for i := len(redo) - 1; i >= 0; i-- {
		r := redo[i]
		if r.u.p != nil {
			*r.u.p = r.cur
			continue
		}
		mo := r.u.m
		switch r.u.mop {
		case 1:
			mo.Keys = append(mo.Keys, r.key)
			mo.Vals = append(mo.Vals, r.cur)
			mo.Dead = append(mo.Dead, false)
			mo.live++
			if h, ok := keyHash(r.key); ok {
				mo.idx[h] = len(mo.Keys) - 1
			} else {
				mo.nsym++
			}
		case 2:
			mo.Vals[r.u.i] = r.cur
		case 3:
			mo.Dead[r.u.i] = true
			mo.live--
			if h, ok := keyHash(mo.Keys[r.u.i]); ok {
				delete(mo.idx, h)
			} else {
				mo.nsym--
			}
		}
	}
	x.undo = saved
	return res
}

func (x *Exec) global(g *ssa.Global) *Value {
	if p, ok := x.globals[g]; ok {
		return p
	}
	if g.Pkg != nil && !x.pkgInit[g.Pkg] {
		x.ensureInit(g.Pkg)
		if p, ok := x.globals[g]; ok {
			return p
		}
	}
	v := zero(g.Type().(*types.Pointer).Elem())
	p := &v
	x.globals[g] = p
	return p
}

// ---- frames

func (fr *frame) op(o opnd) Value {
	switch {
	case o.slot >= 0:
		return fr.env[o.slot]
	case o.slot == -1:
		return o.v
	case o.slot == -2:
		return Ptr{fr.x.global(o.g)}
	default:
		return copyVal(o.v)
	}
}

func (fr *frame) runDefers() {
	x := fr.x
	for len(fr.defers) > 0 {
		d := fr.defers[len(fr.defers)-1]
		fr.defers = fr.defers[:len(fr.defers)-1]
		x.deferStack = append(x.deferStack, fr)
		func() {
			defer func() { x.deferStack = x.deferStack[:len(x.deferStack)-1] }()
			if b, ok := d.fn.(Builtin); ok {
				x.builtin(b.B, d.args)
				return
			}
			x.call(d.fn, d.args)
		}()
	}
}

func (x *Exec) call(fn Value, args []Value) Value {
	switch f := fn.(type) {
	case Func:
		return x.callSSA(f.Fn, args, nil)
	case *Closure:
		return x.callSSA(f.Fn, args, f.Env)
	case NilFunc:
		goPanicf("invalid memory address or nil pointer dereference (call of nil function)")
	case NoopFunc:
		return nil
	case NativeFunc:
		return f.F(x, args)
	}
	panic(fmt.Sprintf("call: unsupported fn %T", fn))
}

const maxCallDepth = 4000

func (x *Exec) callSSA(fn *ssa.Function, args []Value, env []Value) Value {
	if x.stubs != nil {
		if st, ok := x.stubs[fn.String()]; ok && !x.stubOff[fn.String()] {
			x.stubsHit["harness-stub:"+fn.String()] = true
			fn = st
		} else if len(x.stubOn) > 0 && x.stubOn[fn.String()] {
			if st, ok := x.stubs["opt:"+fn.String()]; ok {
				x.stubsHit["harness-stub:"+fn.String()] = true
				fn = st
			}
		}
	}
	if r, ok := x.intrinsic(fn, args); ok {
		return r
	}
	if fn.Blocks == nil {
		unsupported("no body for %s", fn.String())
	}
	if fn.Pkg != nil && !x.pkgInit[fn.Pkg] {
		x.ensureInit(fn.Pkg)
	}
	cf := compile(fn)
	if x.logUndo {
		x.funcsRun[fn] = true
	}
	fr := &frame{x: x, cf: cf, env: make([]Value, cf.nslots), caller: x.cur}
	for i, s := range cf.params {
		fr.env[s] = args[i]
	}
	for i, s := range cf.freevars {
		fr.env[s] = env[i]
	}
	fr.block = cf.blocks[0]
	if len(x.cstack) >= maxCallDepth {
		panic(pathEnd{"bound-exceeded: call depth"})
	}
	saved := x.cur
	x.cur = fr
	fr.idx = len(x.cstack)
	x.cstack = append(x.cstack, fr)
	var res Value
	if !cf.hasDefer {
		res = fr.run()
	} else {
		res = fr.runWithDefers()
	}
	x.cur = saved
	x.cstack = x.cstack[:fr.idx]
	return res
}

func (fr *frame) runWithDefers() (result Value) {
	defer func() {
		r := recover()
		if r == nil {
			return
		}
		gp, ok := r.(goPanic)
		if !ok {
			panic(r)
		}
		if gp.site == "" && len(fr.x.cstack) > 0 {
			gp.site = fr.x.cstack[len(fr.x.cstack)-1].cf.fn.String()
		}
		fr.panicking = &gp
		fr.x.cur = fr
		fr.x.cstack = fr.x.cstack[:fr.idx+1]
		fr.runDefers()
		if fr.panicking != nil {
			panic(*fr.panicking)
		}
		// recovered: return named results via the Recover block, or zero values
		if fr.cf.recover != nil {
			fr.block, fr.prev = fr.cf.recover, nil
			result = fr.run()
			return
		}
		res := fr.cf.fn.Signature.Results()
		switch res.Len() {
		case 0:
			result = nil
		case 1:
			result = zero(res.At(0).Type())
		default:
			result = zero(res)
		}
	}()
	return fr.run()
}

func (fr *frame) run() Value {
	x := fr.x
	for {
		blk := fr.block
		if len(blk.phis) > 0 {
			pi := -1
			for k, p := range blk.b.Preds {
				if p == fr.prev {
					pi = k
					break
				}
			}
			if pi < 0 {
				panic("phi: predecessor not found in " + fr.cf.fn.String())
			}
			if len(blk.phis) == 1 {
				fr.env[blk.phis[0].dst] = fr.op(blk.phis[0].ops[pi])
			} else {
				tmp := make([]Value, len(blk.phis))
				for k := range blk.phis {
					tmp[k] = fr.op(blk.phis[k].ops[pi])
				}
				for k := range blk.phis {
					fr.env[blk.phis[k].dst] = tmp[k]
				}
			}
		}
		var next *ssa.BasicBlock
		x.Steps += int64(len(blk.ins))
		if x.Steps > x.maxSteps {
			panic(pathEnd{"bound-exceeded: steps"})
		}
		if atomic.LoadInt32(&abortAll) != 0 {
			panic(pathEnd{"bound-exceeded: memory (exploration abandoned)"})
		}
		for i := range blk.ins {
			ci := &blk.ins[i]
			switch in := ci.in.(type) {
			case *ssa.Return:
				switch len(ci.ops) {
				case 0:
					return nil
				case 1:
					return fr.op(ci.ops[0])
				}
				t := make(Tuple, len(ci.ops))
				for k := range ci.ops {
					t[k] = fr.op(ci.ops[k])
				}
				return t
			case *ssa.Jump:
				next = blk.b.Succs[0]
			case *ssa.If:
				c := fr.op(ci.ops[0]).(Bool)
				var b bool
				if c.S == nil {
					b = c.C
				} else {
					b = x.branch(c.S)
				}
				if b {
					next = blk.b.Succs[0]
				} else {
					next = blk.b.Succs[1]
				}
			case *ssa.Panic:
				v := fr.op(ci.ops[0])
				if lr := x.lastRecovered; lr != nil && isHarnessFn(fr.cf.fn) {
					panic(*lr) // a harness re-raising what it recovered keeps the original message and site
				}
				panic(goPanic{msg: x.panicText(v), val: v, site: fr.cf.fn.String()})
			default:
				_ = in
				fr.exec(ci)
			}
		}
		if next == nil {
			panic("fell off block in " + fr.cf.fn.String())
		}
		fr.prev = blk.b
		fr.block = fr.cf.blocks[next.Index]
	}
}

func (x *Exec) panicText(v Value) string {
	if ifc, ok := v.(Iface); ok {
		switch s := ifc.V.(type) {
		case Str:
			if s.Sym == nil {
				return s.S
			}
			return describe(s)
		}
		if ifc.T != nil {
			// error values: try Error()
			if fn := x.lookupMethod(ifc.T, "Error"); fn != nil {
				var res Value
				func() {
					defer func() {
						if r := recover(); r != nil {
							if _, ok := r.(pathEnd); ok {
								res = Str{S: "<error>"}
								return
							}
							panic(r)
						}
					}()
					res = x.callSSA(fn, []Value{ifc.V}, nil)
				}()
				if s, ok := res.(Str); ok {
					return describe(s)
				}
			}
			return "panic(" + typeKey(ifc.T) + ")"
		}
	}
	return "panic"
}

func (x *Exec) lookupMethod(t types.Type, name string) *ssa.Function {
	k := methKey{t, name}
	if f, ok := x.methCache[k]; ok {
		return f
	}
	var pkg *types.Package
	if n, ok := derefNamed(t); ok && n.Obj() != nil {
		pkg = n.Obj().Pkg()
	}
	var f *ssa.Function
	if sel := x.prog.MethodSets.MethodSet(t).Lookup(pkg, name); sel != nil {
		f = x.prog.MethodValue(sel)
	}
	x.methCache[k] = f
	return f
}

func derefNamed(t types.Type) (*types.Named, bool) {
	if p, ok := t.(*types.Pointer); ok {
		t = p.Elem()
	}
	n, ok := t.(*types.Named)
	return n, ok
}

func (fr *frame) exec(ci *cinstr) {
	x := fr.x
	o := ci.ops
	switch in := ci.in.(type) {
	case *ssa.Alloc:
		v := zero(in.Type().(*types.Pointer).Elem())
		fr.env[ci.dst] = Ptr{&v}
	case *ssa.UnOp:
		fr.env[ci.dst] = x.unop(in, fr.op(o[0]))
	case *ssa.BinOp:
		fr.env[ci.dst] = x.binop(in.Op, fr.op(o[0]), fr.op(o[1]))
	case *ssa.Store:
		p := fr.op(o[0]).(Ptr)
		if p.P == nil {
			goPanicf("invalid memory address or nil pointer dereference")
		}
		x.assign(p.P, fr.op(o[1]))
	case *ssa.FieldAddr:
		p := fr.op(o[0]).(Ptr)
		if p.P == nil {
			goPanicf("invalid memory address or nil pointer dereference")
		}
		s := (*p.P).(Struct)
		fr.env[ci.dst] = Ptr{&s[in.Field]}
	case *ssa.Field:
		s := fr.op(o[0]).(Struct)
		fr.env[ci.dst] = copyVal(s[in.Field])
	case *ssa.IndexAddr:
		base := fr.op(o[0])
		idx := fr.op(o[1]).(Int)
		var data []Value
		switch b := base.(type) {
		case Slice:
			data = b.Data
		case Ptr: // *array
			if b.P == nil {
				goPanicf("invalid memory address or nil pointer dereference")
			}
			data = (*b.P).(Array)
		default:
			panic(fmt.Sprintf("IndexAddr on %T", base))
		}
		i := x.index(idx, len(data))
		fr.env[ci.dst] = Ptr{&data[i]}
	case *ssa.Index:
		base := fr.op(o[0])
		idx := fr.op(o[1]).(Int)
		switch b := base.(type) {
		case Array:
			fr.env[ci.dst] = x.readIndexed([]Value(b), idx)
		case Str:
			fr.env[ci.dst] = x.strIndex(b, idx)
		default:
			panic(fmt.Sprintf("Index on %T", base))
		}
	case *ssa.Lookup:
		base := fr.op(o[0])
		switch b := base.(type) {
		case Str:
			fr.env[ci.dst] = x.strIndex(b, fr.op(o[1]).(Int))
		case Map:
			v, ok := x.mapLookup(b, fr.op(o[1]))
			if !ok {
				v = zero(in.X.Type().Underlying().(*types.Map).Elem())
			}
			if in.CommaOk {
				fr.env[ci.dst] = Tuple{copyVal(v), Bool{C: ok}}
			} else {
				fr.env[ci.dst] = copyVal(v)
			}
		default:
			panic(fmt.Sprintf("Lookup on %T", base))
		}
	case *ssa.MapUpdate:
		x.mapUpdate(fr.op(o[0]).(Map), fr.op(o[1]), copyVal(fr.op(o[2])))
	case *ssa.MakeMap:
		fr.env[ci.dst] = Map{M: newMapObj()}
	case *ssa.MakeSlice:
		li, cci := fr.op(o[0]).(Int), fr.op(o[1]).(Int)
		if li.S != nil && x.branch(x.tt.Cmp(OpSlt, li.S, x.tt.Const(li.W, 0))) {
			goPanicf("makeslice: len out of range")
		}
		if cci.S != nil && x.branch(x.tt.Cmp(OpSlt, cci.S, x.tt.Const(cci.W, 0))) {
			goPanicf("makeslice: cap out of range")
		}
		if cci.S != nil && x.branch(x.tt.Cmp(OpSlt, x.tt.Const(cci.W, 1<<40), cci.S)) {
			goPanicf("makeslice: cap out of range")
		}
		l := int(x.concretizeSmall(li, "make len", 9))
		c := int(x.concretizeSmall(cci, "make cap", 9))
		if l < 0 {
			goPanicf("makeslice: len out of range")
		}
		if c < l {
			goPanicf("makeslice: cap out of range")
		}
		if c > 1<<24 {
			panic(pathEnd{"bound-exceeded: make of huge slice"})
		}
		et := in.Type().Underlying().(*types.Slice).Elem()
		d := make([]Value, l, c)
		d = d[:c]
		for i := range d {
			d[i] = zero(et)
		}
		fr.env[ci.dst] = Slice{Data: d[:l]}
	case *ssa.Slice:
		fr.env[ci.dst] = x.slice(fr.op(o[0]), fr.op(o[1]), fr.op(o[2]), fr.op(o[3]))
	case *ssa.Extract:
		fr.env[ci.dst] = fr.op(o[0]).(Tuple)[in.Index]
	case *ssa.MakeInterface:
		fr.env[ci.dst] = Iface{T: in.X.Type(), V: fr.op(o[0])}
	case *ssa.ChangeInterface:
		fr.env[ci.dst] = fr.op(o[0])
	case *ssa.ChangeType:
		fr.env[ci.dst] = fr.op(o[0])
	case *ssa.Convert:
		fr.env[ci.dst] = x.convert(in.X.Type(), in.Type(), fr.op(o[0]))
	case *ssa.SliceToArrayPointer:
		s := fr.op(o[0]).(Slice)
		n := int(in.Type().(*types.Pointer).Elem().Underlying().(*types.Array).Len())
		if len(s.Data) < n {
			goPanicf("cannot convert slice with length %d to array or pointer to array with length %d", len(s.Data), n)
		}
		var v Value = Array(s.Data[:n:n])
		fr.env[ci.dst] = Ptr{&v}
	case *ssa.MakeClosure:
		env := make([]Value, len(o)-1)
		for i := range env {
			env[i] = fr.op(o[i+1])
		}
		fr.env[ci.dst] = &Closure{Fn: in.Fn.(*ssa.Function), Env: env}
	case *ssa.TypeAssert:
		fr.env[ci.dst] = x.typeAssert(in, fr.op(o[0]).(Iface))
	case *ssa.Call:
		fr.env[ci.dst] = fr.doCall(in.Common(), o)
	case *ssa.Range:
		fr.env[ci.dst] = x.mkRange(fr.op(o[0]))
	case *ssa.Next:
		fr.env[ci.dst] = x.next(in, fr.op(o[0]).(*iter))
	case *ssa.Defer:
		c := in.Common()
		d := deferred{inv: c}
		n := len(c.Args)
		if c.IsInvoke() {
			recv := fr.op(o[0]).(Iface)
			if recv.T == nil {
				goPanicf("invalid memory address or nil pointer dereference")
			}
			fn := x.lookupMethod(recv.T, c.Method.Name())
			d.fn = Func{fn}
			d.args = append(d.args, recv.V)
		} else {
			d.fn = fr.op(o[0])
		}
		for k := 0; k < n; k++ {
			d.args = append(d.args, fr.op(o[1+k]))
		}
		fr.defers = append(fr.defers, d)
	case *ssa.RunDefers:
		fr.runDefers()
	case *ssa.DebugRef:
	default:
		unsupported("instr %T in %s", ci.in, fr.cf.fn)
	}
}

func (fr *frame) doCall(c *ssa.CallCommon, o []opnd) Value {
	x := fr.x
	n := len(c.Args)
	if c.IsInvoke() {
		recv := fr.op(o[0]).(Iface)
		if recv.T == nil {
			goPanicf("invalid memory address or nil pointer dereference")
		}
		fn := x.lookupMethod(recv.T, c.Method.Name())
		if fn == nil {
			panic(fmt.Sprintf("no method %s on %v", c.Method.Name(), recv.T))
		}
		args := make([]Value, 0, n+1)
		args = append(args, recv.V)
		for k := 0; k < n; k++ {
			args = append(args, fr.op(o[1+k]))
		}
		return x.callSSA(fn, args, nil)
	}
	args := make([]Value, n)
	for k := 0; k < n; k++ {
		args[k] = fr.op(o[1+k])
	}
	fv := fr.op(o[0])
	if b, ok := fv.(Builtin); ok {
		return x.builtin(b.B, args)
	}
	return x.call(fv, args)
}

// ---- indexing

// index checks bounds (forking on symbolic) and returns a concrete index.
func (x *Exec) index(idx Int, n int) int {
	if idx.S != nil {
		if t := x.simp(idx.S); t.IsConst() {
			idx = Int{W: idx.W, Signed: idx.Signed, C: t.K}
		}
	}
	if idx.S == nil {
		i := idx.conc()
		if i < 0 || i >= int64(n) {
			goPanicf("index out of range [%d] with length %d", i, n)
		}
		return int(i)
	}
	t := x.tt.Resize(idx.S, 64, idx.Signed)
	inb := x.tt.Cmp(OpUlt, t, x.tt.Const(64, uint64(n)))
	if !x.branch(inb) {
		goPanicf("index out of range [symbolic] with length %d", n)
	}
	return int(x.concretize(Int{W: 64, Signed: true, S: t}, "index", 300))
}

// readIndexed reads data[idx]; scalar reads with a symbolic index become an ite chain.
func (x *Exec) readIndexed(data []Value, idx Int) Value {
	if idx.S != nil {
		if t := x.simp(idx.S); t.IsConst() {
			idx = Int{W: idx.W, Signed: idx.Signed, C: t.K}
		}
	}
	if idx.S == nil {
		return copyVal(data[x.index(idx, len(data))])
	}
	n := len(data)
	allInt := n > 0 && n <= 512
	w := 0
	var sg bool
	if allInt {
		for _, e := range data {
			ie, ok := e.(Int)
			if !ok || ie.Atom != 0 {
				allInt = false
				break
			}
			w, sg = ie.W, ie.Signed
		}
	}
	if !allInt {
		return copyVal(data[x.index(idx, n)])
	}
	t := x.tt.Resize(idx.S, 64, idx.Signed)
	if !x.branch(x.tt.Cmp(OpUlt, t, x.tt.Const(64, uint64(n)))) {
		goPanicf("index out of range [symbolic] with length %d", n)
	}
	r := x.term(data[n-1].(Int))
	for i := n - 2; i >= 0; i-- {
		r = x.tt.Ite(x.tt.Cmp(OpEq, t, x.tt.Const(64, uint64(i))), x.term(data[i].(Int)), r)
	}
	return x.mkInt(w, sg, r)
}

func (x *Exec) strIndex(s Str, idx Int) Value {
	if idx.S == nil || s.HasAtom() {
		i := x.index(idx, s.Len())
		b := x.strByte(s, i)
		if b.Atom != 0 {
			unsupported("indexing through an atom")
		}
		return b
	}
	bs := strBytes(s)
	d := make([]Value, len(bs))
	for i, b := range bs {
		d[i] = b
	}
	return x.readIndexed(d, idx)
}

// sliceBounds resolves the (possibly symbolic) bounds of a slice expression: first one fork on
// "bounds valid" against "out of range" (the Go panic), then the valid values are enumerated.
func (x *Exec) sliceBounds(lo, hi, max Value, length, capacity int, isStr bool) (int, int, int) {
	sym := false
	for _, v := range []Value{lo, hi, max} {
		if i, ok := v.(Int); ok && i.S != nil {
			if t := x.simp(i.S); !t.IsConst() {
				sym = true
			}
		}
	}
	limit := capacity
	if isStr {
		limit = length
	}
	if sym {
		tt := x.tt
		term := func(v Value, def int) *Term {
			if v == nil {
				return tt.Const(64, uint64(def))
			}
			i := v.(Int)
			return tt.Resize(x.term(i), 64, i.Signed)
		}
		l, h := term(lo, 0), term(hi, length)
		m := term(max, capacity)
		valid := tt.And(tt.Cmp(OpSle, tt.Const(64, 0), l), tt.Cmp(OpSle, l, h))
		if max != nil {
			valid = tt.And(valid, tt.And(tt.Cmp(OpSle, h, m), tt.Cmp(OpSle, m, tt.Const(64, uint64(capacity)))))
		} else {
			valid = tt.And(valid, tt.Cmp(OpSle, h, tt.Const(64, uint64(limit))))
		}
		if !x.branch(valid) {
			goPanicf("slice bounds out of range [symbolic] with length %d", limit)
		}
	}
	geti := func(v Value, def int) int {
		if v == nil {
			return def
		}
		return int(x.concretize(v.(Int), "slice bound", capacity+2))
	}
	l, h := geti(lo, 0), geti(hi, length)
	m := geti(max, capacity)
	if l < 0 || h < l || h > limit || m < h || m > capacity {
		if isStr {
			goPanicf("slice bounds out of range [%d:%d] with length %d", l, h, length)
		}
		goPanicf("slice bounds out of range [%d:%d] with capacity %d", l, h, capacity)
	}
	return l, h, m
}

func (x *Exec) slice(base, lo, hi, max Value) Value {
	switch b := base.(type) {
	case Str:
		l, h, _ := x.sliceBounds(lo, hi, nil, b.Len(), b.Len(), true)
		return x.strSlice(b, l, h)
	case Slice:
		l, h, m := x.sliceBounds(lo, hi, max, len(b.Data), cap(b.Data), false)
		if b.Nil && l == 0 && h == 0 {
			return b
		}
		return Slice{Data: b.Data[l:h:m]}
	case Ptr:
		if b.P == nil {
			goPanicf("invalid memory address or nil pointer dereference")
		}
		a := (*b.P).(Array)
		l, h, m := x.sliceBounds(lo, hi, max, len(a), len(a), false)
		return Slice{Data: []Value(a)[l:h:m]}
	}
	panic(fmt.Sprintf("slice of %T", base))
}

func (x *Exec) typeAssert(in *ssa.TypeAssert, v Iface) Value {
	var ok bool
	var res Value
	if it, isIface := in.AssertedType.Underlying().(*types.Interface); isIface {
		if v.T != nil {
			ok = x.implements(v.T, it)
		}
		res = v
	} else {
		ok = v.T != nil && x.identical(v.T, in.AssertedType)
		if ok {
			res = v.V
		}
	}
	if in.CommaOk {
		if !ok {
			if _, isIface := in.AssertedType.Underlying().(*types.Interface); isIface {
				res = Iface{}
			} else {
				res = zero(in.AssertedType)
			}
		}
		return Tuple{res, Bool{C: ok}}
	}
	if !ok {
		if v.T == nil {
			goPanicf("interface conversion: interface is nil, not %v", in.AssertedType)
		}
		goPanicf("interface conversion: interface is %v, not %v", v.T, in.AssertedType)
	}
	return res
}

type typePair struct{ a, b types.Type }

var identCache sync.Map
var implCache sync.Map

func (x *Exec) identical(a, b types.Type) bool {
	if a == b {
		return true
	}
	k := typePair{a, b}
	if v, ok := identCache.Load(k); ok {
		return v.(bool)
	}
	r := types.Identical(a, b)
	identCache.Store(k, r)
	return r
}

func (x *Exec) implements(t types.Type, it *types.Interface) bool {
	k := typePair{t, it}
	if v, ok := implCache.Load(k); ok {
		return v.(bool)
	}
	r := types.Implements(t, it)
	implCache.Store(k, r)
	return r
}

// ---- range / next

type iter struct {
	str  *Str
	pos  int
	keys []Value
	vals []Value
}

func (x *Exec) mkRange(v Value) Value {
	switch v := v.(type) {
	case Str:
		return &iter{str: &v}
	case Map:
		it := &iter{}
		if v.M != nil {
			ks, vs := v.M.entries()
			// iteration order is a choice point: identity, reverse, rotation (all permutations for <= 3)
			order := x.mapOrder(len(ks))
			for _, i := range order {
				it.keys = append(it.keys, ks[i])
				it.vals = append(it.vals, vs[i])
			}
		}
		return it
	}
	panic(fmt.Sprintf("range over %T", v))
}

func (x *Exec) mapOrder(n int) []int {
	id := make([]int, n)
	for i := range id {
		id[i] = i
	}
	if !x.mapOrders || n < 2 {
		return id
	}
	if v, ok := x.env["mapOrderOff"]; ok && v != nil {
		return id
	}
	var perms [][]int
	if n <= 3 {
		var gen func(cur []int, used []bool)
		gen = func(cur []int, used []bool) {
			if len(cur) == n {
				perms = append(perms, append([]int{}, cur...))
				return
			}
			for i := 0; i < n; i++ {
				if !used[i] {
					used[i] = true
					gen(append(cur, i), used)
					used[i] = false
				}
			}
		}
		gen(nil, make([]bool, n))
	} else {
		rev := make([]int, n)
		rot := make([]int, n)
		for i := range id {
			rev[i] = n - 1 - i
			rot[i] = (i + n/2) % n
		}
		perms = [][]int{id, rev, rot}
	}
	return perms[x.choose(len(perms))]
}

func (x *Exec) next(in *ssa.Next, it *iter) Value {
	if in.IsString {
		if it.pos >= it.str.Len() {
			return Tuple{Bool{C: false}, Int{W: 64, Signed: true}, Int{W: 32, Signed: true}}
		}
		r, w := x.decodeRune(*it.str, it.pos)
		res := Tuple{Bool{C: true}, Int{W: 64, Signed: true, C: uint64(it.pos)}, r}
		it.pos += w
		return res
	}
	if it.pos >= len(it.keys) {
		return Tuple{Bool{C: false}, nil, nil}
	}
	r := Tuple{Bool{C: true}, it.keys[it.pos], it.vals[it.pos]}
	it.pos++
	return r
}

// where names the innermost functions of the interrupted path (diagnostics).
func (x *Exec) where() string {
	n := len(x.cstack)
	s := ""
	for i := n - 1; i >= 0 && i >= n-3; i-- {
		if s != "" {
			s += " < "
		}
		s += x.cstack[i].cf.fn.String()
	}
	return s
}

func isHarnessFn(fn *ssa.Function) bool {
	n := fn.Name()
	if fn.Parent() != nil {
		return isHarnessFn(fn.Parent())
	}
	return len(n) > 5 && (n[:5] == "Verif" || n[:5] == "verif")
}
