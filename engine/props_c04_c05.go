package main

import (
	"fmt"
	"strings"
	"time"
)

const c04Prelude = `func f(u){u+1}; func mk(X){func(y){X+y}}; func mkl(z){func(y){z+y}}; func ap(g){func(y){g(y)}}; ` +
	`func pr(u){println("pr",u); u*2}; func fl(u){if u==b {error("boom")}; u}; v=c; func rd(u){u+v}; func wr(u){v=u; v}; ` +
	`func many(u1,u2,u3,u4,u5){println("many"); u1+u5}; func arr(u){println("arr"); len(u)}; func inc(u){u+1}; func dec(u){u-1}; ` +
	`func outer(u){pr(u)+f(u)}; func rec(n){if n<=0 {return 0}; println(n); n+rec(n-1)}`

var c04Menu = []string{
	"f(a)", "f(b)", "func f(u){u+2}", "g1=mk(a); g1(c)", "g2=mk(b); g2(c)", "l1=mkl(a); l1(c)", "l2=mkl(b); l2(c)",
	"h1=ap(inc); h1(a)", "h2=ap(dec); h2(a)", "pr(a)", "pr(b)", "fl(a)", "catch(fl(a))", "rd(a)", "v=b", "wr(a)", "rd(b)",
	"many(a,b,c,a,b)", "arr([a,b])", "arr([0,1,2,3,4,5,6,7,8,a])", "outer(a)", "func pr(u){println(\"pr2\",u); u}", "rec(k0)", "inc=dec; h1=ap(inc); h1(a)",
	"f(x)", "pr(s)", "pr(p)", "f(a)+f(a)", "[f(a),f(a),pr(a)]",
}

func c04Sessions(tier string) [][]string {
	var out [][]string
	n := len(c04Menu)
	for i := 0; i < n; i++ {
		for j := 0; j < n; j++ {
			out = append(out, []string{c04Prelude, c04Menu[i], c04Menu[j], c04Menu[i]})
		}
	}
	if tier == "thorough" {
		for i := 0; i < n; i++ {
			for j := 0; j < n; j++ {
				for k := 0; k < n; k += 3 {
					out = append(out, []string{c04Prelude, c04Menu[i], c04Menu[j], c04Menu[k], c04Menu[i], c04Menu[j]})
				}
			}
		}
	}
	// closures over lower-case, upper-case and function-valued variables; redefinition in between
	out = append(out,
		[]string{"func mk(X){func(y){X+y}}", "f1=mk(1); f2=mk(2)", "f1(a)", "f2(a)", "f1(a)"},
		[]string{"func mk(X){func(y){X+y}}", "f1=mk(a); f2=mk(b)", "f1(c)", "f2(c)"},
		[]string{"func h(){1}; func cc(){h()}", "cc()", "func h(){2}", "cc()"},
		[]string{"k=func(){a}; func d(){k()}", "d()", "k=func(){b}", "d()"},
		[]string{"A=a; func g(){A}", "g()", "del(A)", "A=b", "g()"},
		[]string{"func g(u){m={1:u}; m[1]}", "g(a)", "g(b)", "g(a)"},
		[]string{"func g(u,w){if u<w {println(\"lt\")}; u-w}", "g(a,b)", "g(b,a)", "g(a,b)"},
		[]string{"t=0; func cnt(){t=t+1; t}", "cnt()", "cnt()", "cnt()"},
		[]string{"func g(u){println(u); u}", "g(x)", "g(y)", "g(x)"},
		[]string{"func fact(n){if n<=1 {return 1}; n*fact(n-1)}", "fact(k0)", "fact(k1)", "fact(k0)"},
		// a caller whose callee reads mutable outer state (found by a sub-agent's reading of the code)
		[]string{"v=a; func rd2(){v}; func wrap(){rd2()}", "wrap()", "v=b", "wrap()"},
		[]string{"v=a; g=func(){v}; f=func(){g()+1}; h=func(){f()*2}", "h()", "v=b", "h()", "f()"},
		[]string{"v=a; func rd3(u){u+v}; func w2(u){println(\"w2\"); rd3(u)}", "w2(c)", "v=b", "w2(c)"},
		// a top-level function rebound from inside a call, then used again within the same top-level input
		[]string{"func g(){1}; func f(){g()}; func swap(){g=func(){2}; f()}", "f()", "swap()", "f()"},
		[]string{"func g(u){println(\"g1\"); u+1}; func f(u){g(u)}; func swap(u){g=func(t){println(\"g2\"); t+2}; f(u)}", "f(a)", "swap(a)", "f(a)"},
		// closure factories called with EQUAL arguments must still give independent closures (solver: a == b)
		[]string{"func mk(k){()=>{k=k+1;k}}", "g=mk(a); g()", "h=mk(b); h()", "g()", "h()"},
		[]string{"func acc(){t=[]; (e)=>{t=t+[e]; t}}", "p1=acc(); p1(a)", "p2=acc(); p2(b)", "p1(c)"},
		// a result that was an error turned into a value (catch), or a function, still depends on what the callee read
		[]string{"func outer(u){catch(hh(u)).err}", "outer(a)", "func hh(u){u}", "outer(a)", "outer(b)"},
		[]string{"func outer(u){catch(u+zz).err}", "outer(a)", "zz=b", "outer(a)"},
		[]string{"v=a; func rd4(u){if v==b {error(\"e\")}; v+u}; func w4(u){catch(rd4(u)).value}", "w4(c)", "v=b", "w4(c)", "v=c", "w4(c)"},
		[]string{"v=a; func mk4(u){w=v; func(y){y+u}}; func use4(u){mk4(u)(1)+v}", "use4(c)", "v=b", "use4(c)"},
		[]string{"v=a; func rd5(){if v==a {error(\"is a\")}; v}; func w5(){r=catch(rd5()); if r.err {0-1} else {r.value}}", "w5()", "v=b", "w5()", "v=a", "w5()"},
		// the sign of zero and the int/float distinction inside container arguments
		[]string{"func sg(u){println(\"sg\", u, 1/u[0]); u}", "sg([0.0, 1])", "sg([-0.0, 1])", "sg([0.0, 1])"},
		[]string{"func sg2(u){println(\"sg2\", 1/u[1]); 1}", "sg2({1: 0.0})", "sg2({1: -0.0})"},
		[]string{"func sg3(u){println(\"sg3\", 1/u[0][0]); 1}", "sg3([[x]])", "sg3([[y]])", "sg3([[x]])"},
		[]string{"func ty(u){println(\"ty\", u[0]/2); u}", "ty([3])", "ty([3.0])", "ty([3])"},
		[]string{"func ty2(u){println(\"ty2\", u.k/2); 1}", "ty2({\"k\": a})", "ty2({\"k\": x})"},
		// every argument is part of the key, also the fifth and later ones; variadic calls
		[]string{"func s5(u1,u2,u3,u4,u5){println(\"s5\", u5); u1+u5}", "s5(1,2,3,4,a)", "s5(1,2,3,4,b)", "s5(1,2,3,4,a)"},
		[]string{"func s6(u1,u2,u3,u4,u5,u6){println(\"s6\"); u5-u6}", "s6(a,a,a,a,b,c)", "s6(a,a,a,a,c,b)", "s6(a,a,a,a,b,b)"},
		[]string{"func vs(u,..){println(\"vs\", ..); len(..)+u}", "vs(1,2,3,4,a)", "vs(1,2,3,4,b)", "vs(1,2,3,4,a,b)"},
		// del of a name: bound or not at the time of the first call
		[]string{"drop = func(){del(zz)}", "drop()", "zz = a", "drop()", "catch(zz).err"},
		[]string{"zz = a; drop = func(){del(zz)}", "drop()", "zz = b", "drop()", "catch(zz).err"},
		[]string{"dm = func(){mq = {1: a}; del(mq[1]); len(mq)}", "dm()", "dm()"},
		// closures inside a returned container are results with state too
		[]string{"func mkc(n){cn=n; [()=>{cn=cn+1; cn}]}", "q1=mkc(a); q1[0]()", "q2=mkc(a); q2[0]()", "q1[0]()", "q2[0]()"},
		[]string{"func mkm(n){cn=n; {\"inc\": ()=>{cn=cn+1; cn}}}", "q1=mkm(a); q1.inc()", "q2=mkm(a); q2.inc()", "q1.inc()"},
		[]string{"func mkn(n){cn=n; [[()=>{cn=cn+2; cn}], 0]}", "q1=mkn(a)[0][0]; q1()", "q2=mkn(a)[0][0]; q2()", "q1()"},
		// a function that reads or writes its caller's loop variable (which lives in a register) depends on outer state
		[]string{"func lv(){println(\"lv\"); i}", "for i = 3 {println(lv())}", "for i = 2 {println(lv())}"},
		[]string{"func lw(){i = i + 10; i}", "for i = 3 {println(lw()); println(i)}"},
		[]string{"func lf(){g = func(){println(\"g\"); i}; for i = 3 {println(g())}}", "lf()", "lf()"},
		[]string{"func lp(n){g = func(){m + n}; for m = 3 {println(g())}}", "lp(a)", "lp(a)"},
		[]string{"jj = 7; func lk(){println(\"lk\"); jj}", "func lh(n){for jj = 2 {println(lk())}}", "lh(a)", "lk()", "lh(a)"},
		// a name that was unbound at the first call and is bound in an enclosing environment at the second one
		[]string{"func na(){zq = 1}", "na()", "zq = 5", "na()", "zq"},
		[]string{"func nb(n){for i = n {}; 0}", "nb(2)", "for i = 3 {nb(2); println(i)}"},
		[]string{"func nc(n){i = n; i}", "nc(5)", "for i = 3 {println(nc(5), i)}"},
		[]string{"func nd(){g = func(){i = 7; 0}; g(); for i = 3 {g(); println(i)}}", "nd()"},
		[]string{"func ne(X){X + 1}", "println(ne(1))", "X = 2", "println(catch(ne(1)))"},
		// "identifier not found" from ++ / index assignment, caught: depends on the name being unbound
		[]string{"func nf(){catch(i++).err}", "println(nf())", "i = 0", "println(nf())", "i"},
		[]string{"func ng(){catch(w[0] = 1).err}", "println(ng())", "w = [0]", "println(ng())", "w"},
		[]string{"func nh(){catch(--i).err}", "println(nh())", "for i = 2 {println(nh(), i)}"},
		// a variadic call whose last argument is an array: the key is the arguments as passed
		[]string{"func vf(..){..}", "println(vf([[5]]))", "println(vf([5]))", "println(vf([[5]]))"},
		[]string{"func vg(u, ..){println(\"vg\"); [u, ..]}", "vg(a, [b])", "vg(a, b)", "vg(a, [[b]])", "vg(a, [b])"},
		// a function redefined inside a call that goes on calling; recursion with a shadowed callee
		[]string{"func dh(){1}; func dk(){0}", "func da(){v = dh(); dh = () => 2; dk(); v}", "println(da())", "println(da())"},
		[]string{"func eh(){1}", "func ef(u){if u == 0 {return eh()}; eh := () => 2; ef(0)}", "println(ef(0))", "println(ef(1))"},
	)
	return out
}

func c05Sessions(tier string) [][]string {
	var out [][]string
	add := func(s ...string) { out = append(out, s) }
	argVals := []string{"a", "b", "c", "a+1", "b-1", "c*2", "a", "b", "c", "a", "b", "c"}
	for _, np := range []int{0, 1, 2, 3, 7, 8, 9, 12} {
		var ps, as, mixed []string
		for i := 0; i < np; i++ {
			ps = append(ps, fmt.Sprintf("u%d", i))
			as = append(as, argVals[i])
			if i%2 == 0 {
				mixed = append(mixed, argVals[i])
			} else {
				mixed = append(mixed, `"s"`)
			}
		}
		P, A, M := strings.Join(ps, ","), strings.Join(as, ","), strings.Join(mixed, ",")
		sum := "0"
		if np > 0 {
			sum = strings.Join(ps, "+")
		}
		add("func f("+P+"){"+sum+"}", "f("+A+")")
		if np > 0 {
			add("func f("+P+"){u0=u0+1; u0}", "f("+A+")", "f("+M+")")
			add("func f("+P+"){u0++; u0}", "f("+A+")")
			add("func f("+P+"){u0--; u0}", "f("+A+")")
			add("func f("+P+"){func(){u0}()}", "f("+A+")")
			add("func f("+P+"){for i=k0 {u0=u0+i}; u0}", "f("+A+")")
			add("func f("+P+"){r=0; for i=k0 {for j=k1 {r=r+i*j+u0}}; r}", "f("+A+")")
			add("func f("+P+"){len(u0)}", "f("+M+")", "f("+A+")")
		}
	}
	exits := map[string]string{"end": "", "break": "if %s==k1 {break}", "continue": "if %s==k1 {continue}", "error": `if %s==k1 {error("x")}`, "return": "if %s==k1 {return %s}"}
	for _, name := range []string{"i", "a", "g", "n"} {
		for ek, ex := range exits {
			body := ""
			if ex != "" {
				if ek == "return" {
					body = fmt.Sprintf(ex, name, name)
				} else {
					body = fmt.Sprintf(ex, name)
				}
			}
			loop := "for " + name + "=k0 {" + body + "; println(" + name + ")}"
			add("g=5", loop, "println(g, a)")
			add("func w(n){"+loop+"; n}", "w(b)", "w(c)")
			// nested
			add("for o=k2 {"+loop+"}", "println(a)")
		}
	}
	// more loops in one session than there are registers, each left a different way
	for _, L := range []int{8, 9, 12} {
		for _, ex := range []string{"", "break", "error(\"e\")"} {
			var s []string
			for k := 0; k < L; k++ {
				s = append(s, "for i=3 {println(i); "+ex+"}")
			}
			s = append(s, "for i=2 {for j=2 {println(i,j)}}")
			out = append(out, s)
		}
	}
	depth := 4
	if tier == "thorough" {
		depth = 10
	}
	for d := 1; d <= depth; d++ {
		open, close, sum := "", "", "0"
		for k := 0; k < d; k++ {
			open += fmt.Sprintf("for i%d=2 {", k)
			close += "}"
			sum += fmt.Sprintf("+i%d", k)
		}
		add("t=0", open+"t=t+"+sum+"+a"+close, "t")
		add("func deep(){t=0; "+open+"t=t+"+sum+close+"; t}", "deep()")
	}
	add("for i=k0:k1+k0 {println(i)}")
	add("func clo(n){func(){n=n+1; n}}", "q1=clo(a)", "q1()", "q1()")
	add("func lp(n){r=[]; for i=n {r=r+[func(){i}]}; r}", "z=lp(k0)", "len(z)")
	add("i=7", "for i=k0 {i}", "i")
	// corner cases of the register substitution (several pointed out by sub-agents reading the code)
	add("seen = 0", "func g(n){seen = n; n = n * 10; n}", "println(g(a), seen)", "seen")
	add("got = -1", "func f(){for i = 5 {if i == k1 {got = i}}}", "f()", "got")
	add("K = 5", "for K = 3 {println(K)}", "K")
	add("K = 5", "func f(K){println(K); K}", "f(a)", "K")
	add("func f(n){++n; n}", "f(a)")
	add("func f(n){--n}", "f(a)")
	add("func f(n){n = \"x\"; n}", "f(a)")
	add("func f(n){n = [n]; n}", "f(a)")
	add("(for i=3 {i}) + (for j=5 {j})")
	add("x = for i=k0 {i}", "y = for j=4 {j}", "println(x, y)")
	add("m = {\"i\": 5}", "for i=2 {println(m.i)}")
	add("func f(i){m = {\"i\": 7}; m.i + i}", "f(a)")
	add("func show(){i}", "for i=3 {println(show())}")
	add("func show(){n}", "func f(n){show()}", "f(a)")
	add("func f(f){f}", "f(a)")
	add("func f(n){[n, n+1]}", "f(a)")
	add("func f(n){{n: n}}", "f(a)")
	add("func f(n){for n = 2 {println(n)}; n}", "f(a)")
	add("func f(n){g = func(){n}; n = n + 1; g()}", "f(a)")
	add("func f(n){if n > b {return n}; n = n * 2; n}", "f(a)", "f(b)")
	add("func f(n, s){s[n % 3]}", "f(a, \"abc\")")
	add("for i = 3 {i = i + 1; println(i)}")
	add("for i = 3 {println(i); i = 5}")
	add("t = 0", "for i = 4 {for i = 2 {t = t + i}}", "t")
	add("func fx(n){n=n*2; for n=k0 {println(n)}; n}", "fx(a)")
	// third round of corner cases: list loops over a registered name, duplicate and extension-named parameters,
	// a register captured by catch / quote / a container, assignment in the last iteration, postfix as a block value
	add("func f(n){for n = [\"p\", \"q\"] {println(n)}; n}", "f(a)")
	add("func f(n){for n = {1: 2} {println(n)}}", "f(a)")
	add("func f(n){for n = \"xy\" {println(n)}; n}", "f(a)")
	add("for i = 2 {for i = [7, 8] {println(i)}; println(i)}")
	add("func f(n, n){n}", "f(a, b)")
	add("func f(n, m, n){n + m}", "f(a, b, 7)")
	add("func f(len2, max){max + 1}", "f(a, b)")
	add("for max = 2 {println(max)}")
	add("for i = 3 {m = catch(i)}", "for j = 5 {}", "m.value")
	add("func f(n){r = catch(n); n = n + 1; r.value}", "f(a)")
	add("for i = 3 {q = quote(i + 1)}", "q")
	add("func f(n){quote(n + 1)}", "f(a)")
	add("for i = 3 {w = [i]; v = {1: i}}", "for j = 7 {}", "println(w, v)")
	add("for i = 3 {i = i * 10}", "i")
	add("for i = 4 {for j = 3 {j = j + i}; println(j)}")
	add("for i = 3 {++i}", "i")
	add("func f(n){n++}", "f(a)")
	add("func f(n){for i = 3 {n++}}", "f(a)")
	add("for i = 3 {i++}")
	add("func f(n){if n > b {n--} else {n++}}", "f(a)")
	add("func f(n){g = n => n + 1; g(5) + n}", "f(a)")
	add("for i = 3 {g = i => i * 2; println(g(i))}")
	add("func f(n){h = func(m){n = n + m; n}; h(1); h(2); n}", "f(a)")
	add("func f(n){[n][0] + {n: n}[n] + (n => n)(n)}", "f(a)")
	// fourth round: a register read as an operand / loop value / return value and changed later in the same expression
	add("func f(n){n + (n = 10)}", "f(a)")
	add("func f(n){n == (n = b)}", "f(a)")
	add("func f(n){n + (++n)}", "f(a)")
	add("func f(n){(if true {n}) + (n = 5)}", "f(a)")
	add("func f(n){s = \"hello\"; s[n:(n = 3)]}", "f(k0)")
	add("func f(n){for e = [1, 2, 3] {if e == 3 {n = 100; continue}; n}}", "f(a)")
	add("func f(n){for (++n) < 5 {n}}", "f(k0)")
	add("(for i = 5 {return i}) + (for j = 7 {j})")
	add("func f(){for i = 5 {if i == k1 {return i}}}", "f() + (for j = 7 {j})")
	add("g = 0", "func f(n){g = n; n = n + 1; g}", "println(f(a)); g")
	add("hit = -1", "func f(){for i = 5 {if i == k1 {hit = i}}; hit}", "println(f()); hit")
	add("func f(n, m){[n == m, n != m, n == 3, 3 == n, m == n + 0]}", "f(a, b)", "f(3, 3)")
	add("t = 0", "for i = 3 {for j = 3 {if i == j {t = t + 1}}}", "t")
	add("func f(n){v = [5, 6, 7]; for i = 3 {if v[i] == n {return i}}; -1}", "f(7)", "f(a)")
	add("func f(n){K2 := n; n = n + 5; K2}", "f(a)")
	// fifth round: a variable held in a register is still a variable - for values that are not integers, for the
	// functions called from the loop, for an enclosing variable of the same name
	add("func f(n){n = x; n}", "f(a)")
	add("func gg(u){u + 0.5}", "func f(n){n = gg(n); n}", "f(a)")
	add("func f(n){n = n / 2; n = n * 3 - 1; n % 5}", "f(a)")
	add("func f(n){if n > 2 {n = \"big\"}; n}", "f(a)")
	add("for i = 3 {i = \"z\"}", "i")
	add("func f(){g = func(){i}; for i = 3 {println(g())}}", "f()")
	add("func f(n){g = func(){m}; for m = n:n+2 {println(g())}}", "f(k0)")
	add("j = 7", "func kk(){j}", "func h(n){for j = 2 {println(kk())}}", "h(a)", "j")
	add("func g(){i = i + 10}", "for i = 3 {g(); println(i)}")
	add("func f(n, m){m = n; n = m + 1; [n, m]}", "f(a, 2)")
	add("func f(n){for n = 3 {println(n)}; n}", "f(a)")
	add("for i = 3 {for i = 2 {println(i)}; println(i)}")
	add("func f(n){n = -n; n = n - -3; n}", "f(a)")
	add("func g(){i = \"w\"}", "for i = 3 {g(); println(i)}")
	add("func f(n){for i = n {n = [i]}; n}", "f(k0)")
	add("func f(n){n := 1.5; n}", "f(a)")
	// sixth round (reported by a sub-agent after the fifth): the same register twice as a map key, a loop variable
	// named like a top level function, self as a parameter, loop variables after a recovered panic
	add("func f(n){{n: println(\"k1\"), n: println(\"k2\")}}", "f(a)")
	add("func f(n){v = 0; m = {n: (v = v + 1), n: (v = v + 10)}; [m, v]}", "f(a)")
	add("for i = 2 {v = 0; m = {i: (v = v + 1), i: (v = v + 10)}; println(m, v)}")
	add("func f(n){{n: 1, 2: n, n + 1: n}}", "f(a)")
	add("func i(){42}; func g(){i()}", "println(g())", "for i = 2 {println(catch(g()))}", "catch(g())")
	add("func f(self){self}", "f(a)")
	add("for self = 3 {println(self)}")
	add("func rr(n){rr(n + 1)}", "for i = 3 {if i == 1 {rr(0)}}", "i")
	add("func rr(n){rr(n + 1)}", "i = 10; for i = 3 {for j = 2 {if i == k1 {rr(0)}}}", "[i, j]")
	// seventh round: the text of errors (the type of a register is INTEGER for the program)
	for _, body := range []string{"\"t\" + n", "\"ab\" - n", "[1] - n", "n + [1]", "n + \"t\"", "{\"k\": 1} + n", "n + {\"k\": 1}", "n[0]", "n.k", "true[n]", "x[n]", "n[1:2]", "n(1)",
		"n[0] = 2", "n.k = 2", "n[1 / 0] = 2", "del(n[0])", "del(n.k)", "first(n)", "rest(n)", "-[n] + n", "!n", "n && true", "if n {1}", "for n == 1.5 {}", "n[n]", "[n][n](n)", "n = n[0]"} {
		add("func f(n){"+body+"}", "f(a)")
	}
	add("func f(n){n}", "\"t\" + f(a)", "len(f(a))", "f(a)[0]", "f(a)(2)")
	add("func f(n){if true {n}}", "\"t\" + f(a)")
	add("for i = 2 {println(catch(len(i)), catch(i[0]), catch(\"t\" - i), catch(i(i)), catch(del(i[0])))}")
	return out
}

// c05ExtSessions run in the extensions package: eval() resolves names at run time.
func c05ExtSessions() [][]string {
	return [][]string{
		{"func f(n){eval(\"n+1\")}", "f(a)"},
		{"func g(n){n = n + 1; eval(\"n\")}", "g(a)"},
		{"func f(n){eval(\"n=5\"); n}", "f(a)"},
		{"func f(n){eval(\"n:=7\"); n}", "f(a)"},
		{"func f(n){for i = 3 {println(eval(\"i\"))}}", "f(a)"},
		{"func f(n){eval(\"n=n*2\"); eval(\"n\") + n}", "f(a)"},
		{"for i = 2 {println(eval(\"i+1\"))}"},
		{"func f(n){eval(\"func(){n}()\")}", "f(a)"},
		{"func f(n){eval(\"n=1.5\"); n}", "f(a)"},
		{"func f(n, m){unjson(\"[n, m]\")}", "f(a, b)"},
		{"func f(int){int}", "f(a)"},
		{"for int = 2 {println(int)}"},
		{"func f(){for sprintf = 2 {println(sprintf)}; sprintf}", "f()"},
	}
}

func init() {
	register(&PropSpec{
		ID: "C04",
		Jobs: func(tier string, seed int64) []Job {
			var jobs []Job
			for _, s := range c04Sessions(tier) {
				jobs = append(jobs, Job{Prop: "C04", Pkg: "eval", Func: "VerifCacheDiff", Args: s, MaxDec: 800})
			}
			return jobs
		},
		Budget: map[string]time.Duration{"quick": 8 * time.Minute, "thorough": 60 * time.Minute},
		Reach:  []string{"cache switch effective"},
		Bounds: map[string]interface{}{"histories": "a prelude defining 15 functions/closure factories, then every ordered pair (i,j) of 29 menu inputs evaluated as i, j, i (841 sessions; thorough adds i,j,k,i,j), plus 31 targeted sessions (incl. errors turned into values by catch, results that are functions or contain closures, a missing identifier defined later, the sign of zero and int/float inside container arguments) (closure factories over lower-case / UPPER-CASE / function-valued captures, redefinition of a callee, deleted and re-bound constant, outer-state reader/writer, printing, failing, recursive functions)",
			"values": "all int64 for a,b,c; float64 x,y; booleans; 2-byte strings; k0,k1 in 0..3"},
		Assumptions: []string{"memoization is switched off by an overlay of eval/memo.go regenerated from the current source with an `if verifCacheOff` guard at the top of Cache.Get and Cache.Set (effectiveness probed on every path: label 'cache switch effective')"},
		Outside:     []string{"longer histories", "non-deterministic extensions (rand, time.now) - need extensions.Init"},
	})
	register(&PropSpec{
		ID: "C05",
		Jobs: func(tier string, seed int64) []Job {
			var jobs []Job
			for _, s := range c05Sessions(tier) {
				jobs = append(jobs, Job{Prop: "C05", Pkg: "eval", Func: "VerifRegDiff", Args: s, MaxDec: 800})
			}
			for _, s := range c05ExtSessions() {
				jobs = append(jobs, Job{Prop: "C05", Pkg: "extensions", Func: "VerifRegDiffExt", Args: s, MaxDec: 800})
			}
			return jobs
		},
		Budget: map[string]time.Duration{"quick": 8 * time.Minute, "thorough": 60 * time.Minute},
		Reach:  []string{"input completed"},
		Bounds: map[string]interface{}{"functions": "0,1,2,3,7,8,9,12 parameters (all integer / alternating integer-string), bodies: sum, =, ++, --, closure over a parameter, counted loops (nesting 1-2) over parameters, len()",
			"loops":  "loop variable named i / a (a global) / g (a global) / n (a parameter); left by end, break, continue, return, error at a symbolic iteration k1 of a symbolic count k0 (0..3); at top level, inside a function, nested in another loop; sessions of 8, 9 and 12 consecutive top-level loops (more than the 8 registers) each left by end / break / error; nesting depth 1..4 (10 thorough)",
			"values": "all int64 for a,b,c"},
		Outside: []string{"type() and info (excluded by the property)", "del() on a parameter (documented difference, tests/delete.gr)", "extension functions other than eval / unjson"},
	})
}
