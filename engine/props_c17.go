package main

import (
	"strconv"
	"time"
)

func init() {
	register(&PropSpec{
		ID: "C17",
		Jobs: func(tier string, seed int64) []Job {
			j := func(f string, a ...string) Job { return Job{Prop: "C17", Pkg: "extensions", Func: f, Args: a} }
			var jobs []Job
			maxSan, maxSL := 6, 5
			if tier == "thorough" {
				maxSan, maxSL = 8, 6
			}
			for _, mode := range []string{"restricted", "emptyonly", "unrestricted"} {
				for n := 0; n <= maxSan; n++ {
					if mode != "restricted" && n > 4 {
						continue
					}
					jobs = append(jobs, j("VerifSanitize", strconv.Itoa(n), mode))
				}
			}
			for _, mode := range []string{"restricted", "emptyonly"} {
				for _, op := range []string{"save", "load"} {
					for n := -1; n <= maxSL; n++ {
						if mode == "emptyonly" && n > 3 {
							continue
						}
						jobs = append(jobs, j("VerifSaveLoad", strconv.Itoa(n), mode, op))
						if n <= 3 {
							jobs = append(jobs, j("VerifSaveLoad", strconv.Itoa(n), mode, op, "script"))
						}
					}
				}
			}
			for c := 0; c < 16; c++ {
				b := func(k int) string { return strconv.Itoa((c >> k) & 1) }
				jobs = append(jobs, j("VerifRegistration", b(0), b(1), b(2), b(3)))
			}
			return jobs
		},
		Budget: map[string]time.Duration{"quick": 4 * time.Minute, "thorough": 40 * time.Minute},
		Reach:  []string{"accepted", "rejected", "file created", "load succeeded", "registration checked"},
		Bounds: map[string]interface{}{"file_name_bytes": "every length 0..6 (8 thorough), all 256 values per byte, for the sanitiser kernel; 0..5 (6) through save()/load() on the file-system model, plus the no-argument form",
			"environment": "bait files ../secret.gr, sub/x.gr, notes.txt and a directory dd.gr/ named like an allowed file; for names of 0..3 bytes also with the program running as the script sub/main.gr", "configurations": "restricted, empty-only, unrestricted; all 16 combinations of HasLoad/HasSave/LoadSaveEmptyOnly/UnrestrictedIOs for function registration"},
		Assumptions: []string{"file-system model: a file is identified by its path string; os.Create/Open/Rename and File.Write/Close/Read, io.ReadAll are modelled (DESIGN §2.7)"},
		Outside:     []string{"names longer than the bound", "the image.save callback (needs image encoding, not encoded; it writes the constant name grol.png)", "extension callbacks that reach the file system through code that is not encoded"},
	})
}
