package main

import (
	"strconv"
	"time"
)

func init() {
	register(&PropSpec{
		ID: "C09",
		Jobs: func(tier string, seed int64) []Job {
			var jobs []Job
			j := func(f string, a ...string) {
				jobs = append(jobs, Job{Prop: "C09", Pkg: "eval", Func: f, Args: a, MaxDec: 800})
			}
			for _, L := range []int{0, 1, 2, 3, 4, 9, 16, 257} {
				j("VerifGuardSize", "arrmul", strconv.Itoa(L))
				j("VerifGuardSize", "strmul", strconv.Itoa(L))
				j("VerifGuardSize", "arrmulguard", strconv.Itoa(L))
			}
			j("VerifGuardSize", "range", "0")
			progs := []string{
				`for i=4 {println(i)}`,
				`func f(n){if n<=0 {return 0}; println(n); f(n-1)}; f(4)`,
				`t=0; for i=3 {for j=3 {t=t+1; println(t)}}; t`,
				`for true {println("x")}`,
				`func g(){g()}; g()`,
				`a=[1,2,3]; for e=a {println(e)}; m={1:2,3:4}; for kv=m {println(kv)}`,
				`x=0; for x<5 {x=x+1; println(x)}`,
				`println(1); println(2); [1,2,3]*3; "ab"*4; println(3)`,
			}
			for _, p := range progs {
				k := "40"
				if tier == "thorough" {
					k = "120"
				}
				j("VerifCancel", p, k)
			}
			for _, p := range []string{
				`a=[1,2,3]; for x=a {for y=a {println(x,y)}}`,
				`for i=3 {for j=3 {println(i,j)}}`,
				`m={1:2,3:4,5:6}; for kv=m {for e=[7,8] {println(kv, e)}}`,
				`s="abc"; for c=s {for d=s {println(c+d)}}`,
				`x=0; for x<5 {x=x+1; println(x)}`,
				`for 4 {println("t")}`,
				`a=[1,2,3]; for x=a {for i=2 {println(x,i)}}`,
				`println(1); println(2); println(3)`,
				`a=[[1,2],[3,4],[5,6]]; for r=a {for e=r {println(e)}; println("row")}`,
				`t=0; for x=[1,2,3,4,5,6,7,8,9,10] {t=t+x; if t%2==0 {continue}; println(t)}`,
			} {
				j("VerifCancelAtOutput", p, "9")
			}
			// recursion that does not go through a function written in the language (the extensions package's harness)
			for _, p := range []string{`s = "eval(s)"; eval(s)`, `func f(n){eval("f(n+1)")}; f(0)`, `s = "[eval(s)]"; eval(s)`, `g = n => eval("g(n+1)"); g(0)`, `s = "if true {eval(s)}"; eval(s)`} {
				jobs = append(jobs, Job{Prop: "C09", Pkg: "extensions", Func: "VerifExtNoPanic", Args: []string{p}, MaxDec: 400, MaxSteps: 8_000_000, HangLabel: "depth/recursion-not-stopped-by-the-depth-limit"})
			}
			hi := "24"
			if tier == "thorough" {
				hi = "60"
			}
			j("VerifDepth", `func f(n){if n<=0 {return 0}; 1+f(n-1)}; f(k0)`, "10", hi)
			j("VerifDepth", `func a(n){if n<=0 {return 0}; b(n-1)}; func b(n){if n<=0 {return 1}; a(n-1)}; a(k0)`, "10", hi)
			j("VerifDepth", `func mk(n){if n<=0 {return func(){0}}; g=mk(n-1); func(){1+g()}}; mk(k0)()`, "10", hi)
			j("VerifDepth", `t=0; for i=k0 {t=t+[[[[i]]]][0][0][0][0]}; t`, "10", hi)
			return jobs
		},
		HangLabels: []string{"guard/guarded-size-wrapped", "guard/guarded-size-is-exact-product", "guard/negative-count-reaches-guard", "guard/large-result-built-without-guard", "cancel/evaluation-continues-after-cancellation", "depth/recursion-not-stopped-by-the-depth-limit"},
		Budget:     map[string]time.Duration{"quick": 6 * time.Minute, "thorough": 40 * time.Minute},
		Reach:      []string{"refused by the memory guard", "refused with an error", "result built", "guard reached", "cancelled during evaluation", "cancelled after a printed line", "max depth reported", "completed within the limit"},
		Bounds: map[string]interface{}{"guard_arithmetic": "array * n and string * n for operand lengths 0,1,2,3,4,9,16,257 and ALL int64 n, free memory = an arbitrary int64 (object.FreeMemory replaced by a nondeterministic stub); result sizes above 8 are not materialised by the executor (reported bound-exceeded)",
			"cancellation_at_output": "10 programs with top-level prints inside nested list / map / string / counted / conditional loops; the context is cancelled by the output writer right after the k-th printed line, every k in 1..9 - a clock the evaluator does not control; no further line may be printed",
			"cancellation": "8 programs (loops, recursion, non-terminating loop, unbounded recursion, container operators); the context's Err() turns non-nil at the k-th call for every k in 0..40 (120 thorough)",
			"depth_through_eval": "5 programs recursing through the eval extension (no function of the language on the cycle), MaxDepth 60: the depth guard must stop them", "depth":        "4 recursion shapes (direct, mutual, closure chain, nested expressions), MaxDepth every value in 10..24 (60 thorough), recursion depth 0..24"},
		Assumptions: []string{"time, resident memory and the Go stack are not modelled: the claim is about the arithmetic and control flow the guards rely on (DESIGN §4 C09, §6)"},
		Outside:     []string{"wall-clock deadline in seconds, process memory within a constant factor, real stack exhaustion, the parser's recursion on deeply nested source text, extension callbacks"},
	})
}
