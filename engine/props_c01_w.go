package main

import (
	"strconv"
	"strings"
)

// A tiny program AST from which both the grol source text and the S-expression for the harness's
// reference evaluator are produced (the reference never sees grol's parser).
type wn struct {
	k    string // kind
	s    string // atom / operator / name
	kids []*wn
}

func W(k, s string, kids ...*wn) *wn { return &wn{k, s, kids} }
func wi(n int) *wn                   { return W("int", strconv.Itoa(n)) }
func wv(n string) *wn                { return W("var", n) }
func ws(t string) *wn                { return W("str", t) }
func wb(op string, l, r *wn) *wn     { return W("bin", op, l, r) }
func wset(n string, e *wn) *wn       { return W("set", n, e) }
func wdef(n string, e *wn) *wn       { return W("def", n, e) }
func wdo(st ...*wn) *wn              { return W("do", "", st...) }
func wif(c *wn, t *wn, e ...*wn) *wn { return W("if", "", append([]*wn{c, t}, e...)...) }
func wcall(f *wn, a ...*wn) *wn      { return W("call", "", append([]*wn{f}, a...)...) }
func wprint(a ...*wn) *wn            { return W("println", "", a...) }
func wfn(name string, params []string, body *wn) *wn {
	return W("fn", name+"|"+strings.Join(params, ","), body)
}
func wlam(params []string, body *wn) *wn { return W("lam", strings.Join(params, ","), body) }
func warr(e ...*wn) *wn                  { return W("arr", "", e...) }
func widx(c, i *wn) *wn                  { return W("idx", "", c, i) }

var wInfix = map[string]bool{"+": true, "-": true, "*": true, "/": true, "%": true, "<": true, "<=": true, ">": true, ">=": true, "==": true, "!=": true, "&": true, "|": true, "^": true, "<<": true, ">>": true}

func (n *wn) grol() string {
	list := func(ks []*wn, sep string) string {
		parts := make([]string, len(ks))
		for i, k := range ks {
			parts[i] = k.grol()
		}
		return strings.Join(parts, sep)
	}
	switch n.k {
	case "int", "var":
		return n.s
	case "float":
		return n.s
	case "bool", "nil":
		return n.s
	case "str":
		return strconv.Quote(n.s)
	case "bin":
		op := n.s
		if op == "and" {
			op = "&&"
		}
		if op == "or" {
			op = "||"
		}
		return "(" + n.kids[0].grol() + " " + op + " " + n.kids[1].grol() + ")"
	case "neg":
		return "(-" + n.kids[0].grol() + ")"
	case "not":
		return "(!" + n.kids[0].grol() + ")"
	case "bnot":
		return "(~" + n.kids[0].grol() + ")"
	case "set":
		return n.s + " = " + n.kids[0].grol()
	case "def":
		return n.s + " := " + n.kids[0].grol()
	case "inc":
		return n.s + "++"
	case "dec":
		return n.s + "--"
	case "preinc":
		return "++" + n.s
	case "predec":
		return "--" + n.s
	case "do":
		return "{" + list(n.kids, "; ") + "}"
	case "prog":
		return list(n.kids, "\n")
	case "if":
		r := "if " + n.kids[0].grol() + " " + n.kids[1].grol()
		if len(n.kids) > 2 {
			r += " else " + n.kids[2].grol()
		}
		return r
	case "while":
		return "for " + n.kids[0].grol() + " " + n.kids[1].grol()
	case "times":
		return "for " + n.kids[0].grol() + " " + n.kids[1].grol()
	case "fori":
		return "for " + n.s + " = " + n.kids[0].grol() + " " + n.kids[1].grol()
	case "forr":
		return "for " + n.s + " = " + n.kids[0].grol() + ":" + n.kids[1].grol() + " " + n.kids[2].grol()
	case "forin":
		return "for " + n.s + " = " + n.kids[0].grol() + " " + n.kids[1].grol()
	case "break", "continue":
		return n.k
	case "return":
		if len(n.kids) == 0 {
			return "return"
		}
		return "return " + n.kids[0].grol()
	case "fn":
		parts := strings.SplitN(n.s, "|", 2)
		name := parts[0]
		if name == "_" {
			name = ""
		} else {
			name = " " + name
		}
		return "func" + name + "(" + parts[1] + ") " + n.kids[0].grol()
	case "lam":
		return "((" + n.s + ") => " + n.kids[0].grol() + ")"
	case "call":
		return n.kids[0].grol() + "(" + list(n.kids[1:], ", ") + ")"
	case "arr":
		return "[" + list(n.kids, ", ") + "]"
	case "map":
		parts := []string{}
		for i := 0; i+1 < len(n.kids); i += 2 {
			parts = append(parts, n.kids[i].grol()+": "+n.kids[i+1].grol())
		}
		return "{" + strings.Join(parts, ", ") + "}"
	case "idx":
		return n.kids[0].grol() + "[" + n.kids[1].grol() + "]"
	case "slice":
		return n.kids[0].grol() + "[" + n.kids[1].grol() + ":" + n.kids[2].grol() + "]"
	case "sliceopen":
		return n.kids[0].grol() + "[" + n.kids[1].grol() + ":]"
	case "setidx":
		return n.s + "[" + n.kids[0].grol() + "] = " + n.kids[1].grol()
	case "len", "first", "rest", "print", "println", "error", "catch":
		return n.k + "(" + list(n.kids, ", ") + ")"
	}
	panic("grol: unknown kind " + n.k)
}

func (n *wn) sexpr() string {
	list := func(ks []*wn) string {
		parts := make([]string, len(ks))
		for i, k := range ks {
			parts[i] = k.sexpr()
		}
		if len(parts) == 0 {
			return ""
		}
		return " " + strings.Join(parts, " ")
	}
	switch n.k {
	case "int", "var", "bool", "nil":
		return n.s
	case "float":
		return "(f " + n.s + ")"
	case "str":
		return "\"" + n.s + "\""
	case "bin":
		return "(" + n.s + list(n.kids) + ")"
	case "set", "def", "inc", "dec", "preinc", "predec", "fori", "forr", "forin", "setidx":
		return "(" + n.k + " " + n.s + list(n.kids) + ")"
	case "prog":
		parts := make([]string, len(n.kids))
		for i, k := range n.kids {
			parts[i] = k.sexpr()
		}
		return strings.Join(parts, " ")
	case "fn":
		parts := strings.SplitN(n.s, "|", 2)
		return "(fn " + parts[0] + " (" + strings.ReplaceAll(parts[1], ",", " ") + ") " + n.kids[0].sexpr() + ")"
	case "lam":
		return "(lam (" + strings.ReplaceAll(n.s, ",", " ") + ") " + n.kids[0].sexpr() + ")"
	case "map":
		parts := []string{}
		for i := 0; i+1 < len(n.kids); i += 2 {
			parts = append(parts, "("+n.kids[i].sexpr()+" "+n.kids[i+1].sexpr()+")")
		}
		return "(map " + strings.Join(parts, " ") + ")"
	}
	return "(" + n.k + list(n.kids) + ")"
}

func wProg(st ...*wn) *wn { return W("prog", "", st...) }

// c01WPrograms: the skeleton family of layer W.
func c01WPrograms(tier string) []*wn {
	a, b, c := wv("a"), wv("b"), wv("c")
	x, i, n, t := wv("x"), wv("i"), wv("n"), wv("t")
	var ps []*wn
	add := func(p *wn) { ps = append(ps, p) }
	// arithmetic / comparison expression shapes over a, b, c
	ops := []string{"+", "-", "*", "/", "%", "<", "<=", "==", "!=", "&", "|", "^", "<<", ">>"}
	for _, o1 := range ops {
		add(wProg(wprint(wb(o1, a, b))))
		for _, o2 := range []string{"+", "-", "*", "<", "=="} {
			if tier != "thorough" && (len(o1)+len(o2))%2 == 1 {
				continue
			}
			add(wProg(wset("x", wb(o1, wb(o2, a, b), c)), wprint(x), x))
		}
	}
	add(wProg(wprint(wb("and", wb("<", a, b), wb("<", b, c)), wb("or", wb("==", a, b), wb(">", a, c)))))
	add(wProg(wprint(W("neg", "", a), W("bnot", "", b), W("not", "", wb("<", a, b)))))
	// control flow
	add(wProg(wif(wb("<", a, b), wdo(wprint(ws("lt"))), wdo(wprint(ws("ge")))), wif(wb("==", a, c), wdo(wi(1)))))
	add(wProg(wset("t", wi(0)), W("fori", "i", wb("&", a, wi(3)), wdo(wset("t", wb("+", t, i)), wprint(i, t))), t))
	add(wProg(wset("t", wi(0)), W("forr", "i", wb("&", a, wi(3)), wb("+", wb("&", a, wi(3)), wb("&", b, wi(3))), wdo(wset("t", wb("+", t, i)))), wprint(t)))
	add(wProg(wset("t", wi(0)), W("times", "", wb("&", a, wi(3)), wdo(wset("t", wb("+", t, wi(2))))), t))
	add(wProg(wset("x", wb("&", a, wi(7))), W("while", "", wb(">", x, wi(0)), wdo(wprint(x), wset("x", wb("-", x, wi(2))))), x))
	// condition-style loops with every way out
	add(wProg(wset("x", wi(0)), W("while", "", wb("<", x, wi(6)), wdo(W("inc", "x"), wif(wb("==", x, wb("&", a, wi(7))), wdo(W("break", ""))), wprint(x))), wprint(ws("after"), x)))
	add(wProg(wset("x", wi(0)), W("while", "", wb("<", x, wi(6)), wdo(W("inc", "x"), wif(wb("==", x, wb("&", a, wi(7))), wdo(W("continue", ""))), wprint(x))), x))
	add(wProg(wfn("w", []string{"v"}, wdo(wset("y", wi(0)), W("while", "", wb("<", wv("y"), wi(5)), wdo(W("inc", "y"), wif(wb("==", wv("y"), wv("v")), wdo(W("return", "", wb("*", wv("y"), wi(10))))), wif(wb("==", wv("y"), wb("+", wv("v"), wi(2))), wdo(W("break", ""))))), wi(-1))), wprint(wcall(wv("w"), wb("&", a, wi(7))))))
	add(wProg(wset("x", wi(0)), W("while", "", wb("<", x, wi(3)), wdo(W("inc", "x"), W("fori", "i", wi(3), wdo(wif(wb("==", i, wb("&", a, wi(3))), wdo(W("break", ""))), wprint(x, i))), wif(wb("==", x, wb("&", b, wi(3))), wdo(W("break", ""))))), x))
	for _, exit := range []string{"break", "continue"} {
		add(wProg(wset("t", wi(0)), W("fori", "i", wi(4), wdo(wif(wb("==", i, wb("&", a, wi(3))), wdo(W(exit, ""))), wset("t", wb("+", t, wi(1))), wprint(i))), t))
		add(wProg(W("fori", "i", wi(3), wdo(W("fori", "j", wi(3), wdo(wif(wb("==", wv("j"), wb("&", b, wi(3))), wdo(W(exit, ""))), wprint(i, wv("j"))))))))
	}
	add(wProg(W("forin", "e", warr(a, b, wi(7)), wdo(wprint(wv("e")))), W("forin", "e", warr(), wdo(wprint(ws("never"))))))
	// functions, recursion, closures, scoping
	add(wProg(wfn("f", []string{"u", "v"}, wdo(wb("-", wv("u"), wv("v")))), wprint(wcall(wv("f"), a, b)), wcall(wv("f"), b, a)))
	add(wProg(wfn("fact", []string{"n"}, wdo(wif(wb("<=", n, wi(1)), wdo(W("return", "", wi(1)))), wb("*", n, wcall(wv("fact"), wb("-", n, wi(1)))))), wprint(wcall(wv("fact"), wb("&", a, wi(7))))))
	add(wProg(wfn("fib", []string{"n"}, wdo(wif(wb("<", n, wi(2)), wdo(W("return", "", n))), wb("+", wcall(wv("fib"), wb("-", n, wi(1))), wcall(wv("fib"), wb("-", n, wi(2)))))), wcall(wv("fib"), wb("&", a, wi(7)))))
	add(wProg(wfn("mk", []string{"k"}, wdo(wlam([]string{}, wdo(wset("k", wb("+", wv("k"), wi(1))), wv("k"))))), wset("g", wcall(wv("mk"), a)), wprint(wcall(wv("g")), wcall(wv("g"))), wset("h", wcall(wv("mk"), b)), wprint(wcall(wv("h")), wcall(wv("g")))))
	add(wProg(wset("x", a), wfn("setx", []string{"v"}, wdo(wset("x", wv("v")), x)), wprint(wcall(wv("setx"), b), x)))
	add(wProg(wset("x", a), wfn("defx", []string{"v"}, wdo(wdef("x", wv("v")), x)), wprint(wcall(wv("defx"), b), x)))
	add(wProg(wfn("loc", []string{}, wdo(wset("y", wi(5)), wv("y"))), wprint(wcall(wv("loc"))), wv("y")))
	add(wProg(wfn("ret", []string{"v"}, wdo(W("fori", "i", wi(5), wdo(wif(wb("==", i, wv("v")), wdo(W("return", "", wb("*", i, wi(10))))))), wi(-1))), wprint(wcall(wv("ret"), wb("&", a, wi(7))))))
	add(wProg(wfn("va", []string{"p", ".."}, wdo(wb("+", wv("p"), W("len", "", wv(".."))))), wprint(wcall(wv("va"), a), wcall(wv("va"), a, b, c), wcall(wv("va"), a, warr(b, c)))))
	add(wProg(wfn("two", []string{"u", "v"}, wdo(wv("u"))), wcall(wv("two"), a)))
	add(wProg(wset("sq", wlam([]string{"u"}, wdo(wb("*", wv("u"), wv("u"))))), wprint(wcall(wv("sq"), a)), wcall(wlam([]string{"u", "v"}, wdo(wb("+", wv("u"), wv("v")))), a, b)))
	add(wProg(wfn("rec", []string{"n"}, wdo(wif(wb("==", n, wi(2)), wdo(wset("z", wi(1)))), wif(wb("<=", n, wi(1)), wdo(W("return", "", wv("z")))), wcall(wv("rec"), wb("-", n, wi(1))))), wcall(wv("rec"), wi(3))))
	// ++ / --
	add(wProg(wset("x", a), wprint(W("inc", "x"), x, W("preinc", "x"), x, W("dec", "x"), W("predec", "x")), x))
	// containers, indexing, slicing
	add(wProg(wset("v", warr(wi(10), wi(20), wi(30), a)), wprint(widx(wv("v"), wb("%", b, wi(6))), widx(wv("v"), wi(-1)), W("len", "", wv("v")))))
	add(wProg(wset("v", warr(wi(1), wi(2), wi(3), wi(4), wi(5), wi(6), wi(7), wi(8), wi(9), a)), W("setidx", "v", wb("&", b, wi(7)), c), wprint(wv("v")), W("slice", "", wv("v"), wb("&", a, wi(3)), wb("+", wi(2), wb("&", b, wi(7))))))
	add(wProg(wset("v", warr(a, b)), wset("w", wb("+", wv("v"), c)), wset("u", wb("+", wv("v"), wv("w"))), wprint(wv("v"), wv("w"), wv("u")), W("first", "", wv("u")), W("rest", "", wv("w"))))
	// arrays are values also where the implementation shares storage: two results built from one left operand
	// above the small/large threshold, and a result built from a slice of a longer array
	nine := func() *wn { return warr(wi(1), wi(2), wi(3), wi(4), wi(5), wi(6), wi(7), wi(8), wi(9)) }
	add(wProg(wset("v", wb("+", nine(), a)), wset("w", wb("+", wv("v"), b)), wset("u", wb("+", wv("v"), c)), wprint(wv("w"), wv("u"), wv("v"))))
	add(wProg(wset("v", wb("+", nine(), warr(a, b))), wset("s", W("slice", "", wv("v"), wi(0), wi(9))), wset("u", wb("+", wv("s"), c)), wprint(wv("u"), wv("s")), wv("v")))
	add(wProg(wset("v", wb("+", wb("+", nine(), a), b)), wset("w", wb("+", wv("v"), warr(c, c))), wset("u", wb("+", wv("v"), warr(a))), wprint(wv("w")), wv("u")))
	add(wProg(wset("m", W("map", "", wi(2), a, wi(1), b, ws("k"), c)), wprint(wv("m"), widx(wv("m"), wi(1)), widx(wv("m"), ws("z")), W("len", "", wv("m"))), W("setidx", "m", wi(5), a), wv("m")))
	add(wProg(wset("s", ws("hello")), wprint(widx(wv("s"), wb("%", a, wi(7))), W("slice", "", wv("s"), wi(1), wi(3)), W("sliceopen", "", wv("s"), wi(-2)), W("len", "", wv("s")), wb("+", wv("s"), ws("!")))))
	// a local or a parameter named like the function shadows the function inside its body
	add(wProg(wfn("sm", []string{"v"}, wdo(wdef("sm", wi(0)), W("forin", "e", wv("v"), wdo(wset("sm", wb("+", wv("sm"), wv("e"))))), wv("sm"))), wprint(wcall(wv("sm"), warr(a, b, wi(3))))))
	add(wProg(wfn("gg", []string{"gg"}, wdo(wv("gg"))), wprint(wcall(wv("gg"), ws("s")), wcall(wv("gg"), a), wcall(wv("gg"), warr(b)))))
	// the value of a loop is the value of the last iteration that ran to its end
	add(wProg(wset("x", W("fori", "i", wi(5), wdo(wif(wb(">", i, wb("&", a, wi(3))), wdo(W("continue", ""))), i))), wprint(x)))
	add(wProg(wset("x", W("fori", "i", wi(5), wdo(wif(wb("==", i, wb("+", wb("&", a, wi(3)), wi(1))), wdo(W("break", ""))), i))), wprint(x)))
	add(wProg(wfn("lv", []string{"n"}, wdo(W("fori", "j", wi(3), wdo(wif(wb("==", wv("j"), wi(2)), wdo(wset("n", wi(100)), W("continue", ""))), n)))), wprint(wcall(wv("lv"), a))))
	add(wProg(wset("x", W("forin", "e", warr(a, b, c), wdo(wif(wb("==", wv("e"), b), wdo(W("continue", ""))), wv("e")))), wprint(x)))
	add(wProg(wset("x", W("times", "", wi(3), wdo(a))), wprint(x)))
	// two closures made by one factory are different functions: a call from one into the other resolves the callee's captures
	add(wProg(wset("mk", wlam([]string{"k"}, wdo(wlam([]string{"g", "d"}, wdo(wif(wb("==", wv("d"), wi(0)), wdo(W("return", "", wv("k")))), wcall(wv("g"), wv("g"), wi(0))))))),
		wset("p1", wcall(wv("mk"), a)), wset("p2", wcall(wv("mk"), b)), wprint(wcall(wv("p1"), wv("p2"), wi(1)), wcall(wv("p2"), wv("p1"), wi(1)), wcall(wv("p1"), wv("p1"), wi(1)))))
	add(wProg(wfn("mkc", []string{"k"}, wdo(wlam([]string{"h", "d"}, wdo(wset("k", wb("+", wv("k"), wi(1))), wif(wb(">", wv("d"), wi(0)), wdo(wcall(wv("h"), wv("h"), wb("-", wv("d"), wi(1))))), wv("k"))))),
		wset("q1", wcall(wv("mkc"), a)), wset("q2", wcall(wv("mkc"), b)), wprint(wcall(wv("q1"), wv("q2"), wi(2)), wcall(wv("q1"), wv("q1"), wi(0)), wcall(wv("q2"), wv("q2"), wi(0)))))
	// an error inside a map literal or a map index is the program's error, not a stored value
	add(wProg(wset("m", W("map", "", ws("k"), wb("/", a, wb("-", b, b)))), wprint(ws("after"), wv("m"))))
	add(wProg(wset("m", W("map", "", wb("/", a, wb("-", b, b)), wi(1))), wprint(ws("after"))))
	add(wProg(wset("m", W("map", "", wi(1), wi(2))), W("setidx", "m", wb("/", a, wb("-", b, b)), wi(3)), wprint(ws("after"), wv("m"))))
	add(wProg(wfn("bad", []string{}, wdo(W("error", "", ws("boom")))), wset("m", W("map", "", wcall(wv("bad")), wi(1), wi(2), wcall(wv("bad")))), wprint(ws("after"))))
	add(wProg(wset("v", warr(wi(1), wb("/", a, wb("-", b, b)))), wprint(ws("after"))))
	// strings are sequences of runes for first and rest
	add(wProg(wprint(W("first", "", ws("\u00e9!")), W("rest", "", ws("\u00e9!")), W("rest", "", ws("\u00e9")), W("rest", "", ws("a")), W("rest", "", ws("ab")), W("first", "", ws("")), W("rest", "", ws("")))))
	// errors and catch
	add(wProg(wprint(ws("before")), W("error", "", ws("boom")), wprint(ws("after"))))
	add(wProg(wset("r", W("catch", "", wb("/", a, wb("-", b, b)))), wprint(wv("r")), wset("q", W("catch", "", wb("+", a, wi(1)))), wv("q")))
	add(wProg(wfn("e1", []string{"v"}, wdo(wif(wb("<", wv("v"), wi(0)), wdo(W("error", "", ws("neg")))), wv("v"))), wfn("e2", []string{"v"}, wdo(wprint(ws("in e2")), wb("+", wcall(wv("e1"), wv("v")), wi(1)))), wprint(W("catch", "", wcall(wv("e2"), a))), wcall(wv("e2"), b)))
	add(wProg(W("fori", "i", wi(3), wdo(wprint(i), wif(wb("==", i, wb("&", a, wi(3))), wdo(W("error", "", ws("stop")))))), wprint(ws("unreached?"))))
	add(wProg(wprint(ws("x")), W("return", "", a), wprint(ws("not printed"))))
	// float arithmetic with integer conversion
	add(wProg(wprint(wb("+", W("float", "1.5"), W("float", "2.25")), wb("*", W("float", "2.5"), wi(2)), wb("/", wi(1), W("float", "4.0")), wb("<", wi(1), W("float", "1.5")))))
	return ps
}
