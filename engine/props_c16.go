package main

import (
	"strconv"
	"time"
)

func init() {
	register(&PropSpec{
		ID: "C16",
		Jobs: func(tier string, seed int64) []Job {
			var jobs []Job
			maxStep, maxStream := 4, 2
			if tier == "thorough" {
				maxStep, maxStream = 6, 3
			}
			for _, mode := range []string{"file", "line"} {
				for n := 0; n <= maxStep; n++ {
					jobs = append(jobs, Job{Prop: "C16", Pkg: "lexer", Func: "VerifLexStep", Args: []string{strconv.Itoa(n), mode}})
				}
				for n := 0; n <= maxStream; n++ {
					jobs = append(jobs, Job{Prop: "C16", Pkg: "lexer", Func: "VerifLexStream", Args: []string{strconv.Itoa(n), mode}})
				}
			}
			// long tokens: sizes around powers of two, one arbitrary byte in the middle
			for _, kind := range []string{"string", "raw", "linecomment", "blockcomment", "number", "ident"} {
				for _, n := range []int{15, 16, 17, 63, 64, 65, 127, 128, 129, 255, 256, 257, 1025} {
					if kind == "number" && n > 17 {
						continue // longer digit strings are not numbers the parser accepts; the lexer part is covered by the other kinds
					}
					jobs = append(jobs, Job{Prop: "C16", Pkg: "lexer", Func: "VerifLexLong", Args: []string{kind, strconv.Itoa(n)}})
				}
			}
			return jobs
		},
		Budget:  map[string]time.Duration{"quick": 4 * time.Minute, "thorough": 40 * time.Minute},
		Bounds:  map[string]interface{}{"step_lemma_input_bytes": "0..4 quick / 0..6 thorough, all 256 values per byte", "stream_input_bytes": "0..2 quick / 0..3 thorough", "modes": []string{"file", "line"}, "long_tokens": "strings, raw strings, line and block comments, identifiers of 15..1025 bytes (around every power of two) and numbers of 15..17 digits with one arbitrary byte in the middle: one token spanning the literal, shared object when lexed twice"},
		Outside: []string{"inputs longer than the stated number of symbolic bytes (the step lemma covers any first token of up to that length from position 0 with arbitrary lexer flags)"},
	})
}
