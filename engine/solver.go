package main

import (
	"bufio"
	"fmt"
	"io"
	"os"
	"os/exec"
	"strconv"
	"strings"
	"time"
)

// Solver drives one long-lived `z3 -in` process.
type Solver struct {
	bin         string
	cmd         *exec.Cmd
	in          io.WriteCloser
	out         *bufio.Reader
	declared    map[*Term]bool
	ufDecl      map[string]bool
	defined     map[*Term]string
	ndef        int
	ndefAtReset int
	stack       []*Term // asserted path-condition terms, one push frame each
	timeoutMs   int
	Queries     int
	OneShot     int
	Unknown     int
	Errors      int
	Sat         int
	Unsat       int
	Time        time.Duration
	MaxQuery    time.Duration
	dump        *os.File // optional query log for cross-checking
	lastErr     string
	Samples     []xSample // standalone copies of a few queries, re-decided by the other solvers after the run
	slowest     *xSample
}

// xSample is one query (path condition and goal) as a self-contained SMT-LIB2 script, with this solver's verdict.
type xSample struct {
	Script  string
	Verdict int
	Seq     int
	FP      bool
	Dur     time.Duration
}

// standalone prints pc ∧ c as a script that needs no solver state.
func standalone(pc []*Term, c *Term) string {
	e := &Solver{declared: map[*Term]bool{}, ufDecl: map[string]bool{}, defined: map[*Term]string{}}
	var sb strings.Builder
	for _, t := range pc {
		txt := e.emit(t, &sb)
		sb.WriteString("(assert " + txt + ")\n")
	}
	if c != nil {
		txt := e.emit(c, &sb)
		sb.WriteString("(assert " + txt + ")\n")
	}
	sb.WriteString("(check-sat)\n")
	return sb.String()
}

func xSampleAt(n int) bool {
	switch n {
	case 4, 40, 400, 4000, 40000, 400000:
		return true
	}
	return false
}

func NewSolver(bin string, timeoutMs int) *Solver {
	s := &Solver{bin: bin, timeoutMs: timeoutMs}
	s.start()
	return s
}

func (s *Solver) start() {
	args := []string{"-in"}
	if strings.Contains(s.bin, "cvc5") {
		args = []string{"--incremental", "--lang=smt2", "--produce-models", fmt.Sprintf("--tlimit-per=%d", s.timeoutMs)}
	}
	cmd := exec.Command(s.bin, args...)
	in, _ := cmd.StdinPipe()
	out, _ := cmd.StdoutPipe()
	cmd.Stderr = nil
	if err := cmd.Start(); err != nil {
		panic(err)
	}
	s.cmd, s.in, s.out = cmd, in, bufio.NewReaderSize(out, 1<<16)
	if p := os.Getenv("VERIF_SOLVER_DUMP"); p != "" && s.dump == nil {
		s.dump, _ = os.OpenFile(p, os.O_CREATE|os.O_WRONLY|os.O_APPEND, 0o644)
	}
	s.declared, s.ufDecl = map[*Term]bool{}, map[string]bool{}
	s.defined = map[*Term]string{}
	s.stack = nil
	s.preamble()
}

func (s *Solver) preamble() {
	if strings.Contains(s.bin, "cvc5") {
		s.send("(set-logic ALL)\n")
		return
	}
	s.send(fmt.Sprintf("(set-option :print-success false)\n(set-option :global-declarations true)\n(set-option :timeout %d)\n", s.timeoutMs))
}

func (s *Solver) send(str string) {
	if s.dump != nil {
		s.dump.WriteString(str)
	}
	if _, err := io.WriteString(s.in, str); err != nil {
		panic(solverDied{err.Error()})
	}
}

type solverDied struct{ msg string }

func (s *Solver) Close() {
	if s.in != nil {
		s.in.Close()
	}
	if s.cmd != nil {
		s.cmd.Process.Kill()
		s.cmd.Wait()
	}
}

func (s *Solver) restart() {
	s.Close()
	s.start()
}

// emit writes declarations and shared-subterm definitions needed by t, then returns t's printed form.
func (s *Solver) emit(t *Term, sb *strings.Builder) string {
	s.prepare(t, sb)
	var b strings.Builder
	t.SMT(&b, s.defined)
	return b.String()
}

// prepare declares variables and defines big shared nodes (post-order).
func (s *Solver) prepare(t *Term, sb *strings.Builder) {
	if _, ok := s.defined[t]; ok {
		return
	}
	if s.declared[t] {
		return
	}
	switch t.Op {
	case OpConst, OpFConst:
		return
	case OpVar:
		s.declared[t] = true
		fmt.Fprintf(sb, "(declare-const %s %s)\n", t.Name, sortName(t.W))
		return
	case OpUF:
		for _, a := range t.Args {
			s.prepare(a, sb)
		}
		if !s.ufDecl[t.Name] {
			s.ufDecl[t.Name] = true
			fmt.Fprintf(sb, "(declare-fun %s (", t.Name)
			for i, a := range t.Args {
				if i > 0 {
					sb.WriteString(" ")
				}
				sb.WriteString(sortName(a.W))
			}
			fmt.Fprintf(sb, ") %s)\n", sortName(t.W))
		}
		return
	}
	for _, a := range t.Args {
		s.prepare(a, sb)
	}
	// name every interior node: keeps output linear in DAG size
	if len(t.Args) > 0 && t.Op != OpNot {
		s.ndef++
		name := fmt.Sprintf("t!%d", s.ndef)
		var b strings.Builder
		t.SMT(&b, s.defined)
		fmt.Fprintf(sb, "(define-fun %s () %s %s)\n", name, sortName(t.W), b.String())
		s.defined[t] = name
	}
}

// sync makes the solver's assertion stack equal to pc (incremental mode).
func (s *Solver) sync(pc []*Term) {
	common := 0
	for common < len(s.stack) && common < len(pc) && s.stack[common] == pc[common] {
		common++
	}
	var sb strings.Builder
	if n := len(s.stack) - common; n > 0 {
		fmt.Fprintf(&sb, "(pop %d)\n", n)
		s.stack = s.stack[:common]
	}
	for _, t := range pc[common:] {
		txt := s.emit(t, &sb)
		sb.WriteString("(push 1)\n(assert ")
		sb.WriteString(txt)
		sb.WriteString(")\n")
		s.stack = append(s.stack, t)
	}
	if sb.Len() > 0 {
		s.send(sb.String())
	}
}

func (s *Solver) readAnswer() int {
	for {
		line, err := s.out.ReadString('\n')
		if err != nil {
			panic(solverDied{"read: " + err.Error()})
		}
		l := strings.TrimSpace(line)
		switch {
		case l == "sat":
			return 1
		case l == "unsat":
			return 0
		case l == "unknown" || l == "timeout":
			return -1
		case strings.HasPrefix(l, "(error"):
			s.Errors++
			s.lastErr = l
			// keep reading: the check-sat answer still follows, but the verdict is not trusted
			r := s.readAnswer()
			_ = r
			return -1
		case l == "":
		default:
			// unexpected output: treat as inconclusive
			s.lastErr = l
		}
	}
}

func anyFP(pc []*Term, c *Term) bool {
	if c != nil && c.HasFP() {
		return true
	}
	for _, t := range pc {
		if t.HasFP() {
			return true
		}
	}
	return false
}

// Check decides satisfiability of pc ∧ c. Returns 1 sat, 0 unsat, -1 unknown. When sat and vars != nil a
// model for vars is returned.
func (s *Solver) Check(pc []*Term, c *Term, vars []*Term) (res int, model Model) {
	start := time.Now()
	defer func() {
		d := time.Since(start)
		s.Time += d
		if d > s.MaxQuery {
			s.MaxQuery = d
		}
		s.Queries++
		if xSampleAt(s.Queries) && len(s.Samples) < 8 {
			s.Samples = append(s.Samples, xSample{standalone(pc, c), res, s.Queries, anyFP(pc, c), d})
		} else if res != -1 && d > 300*time.Millisecond && (s.slowest == nil || d > 2*s.slowest.Dur) {
			s.slowest = &xSample{standalone(pc, c), res, s.Queries, anyFP(pc, c), d}
		}
		switch res {
		case 1:
			s.Sat++
		case 0:
			s.Unsat++
		default:
			s.Unknown++
		}
	}()
	if anyFP(pc, c) {
		return s.oneShot(pc, c, vars)
	}
	if s.ndef-s.ndefAtReset > 4000 {
		// global definitions accumulate across paths and slow the solver down: start afresh
		s.send("(reset)\n")
		s.declared, s.ufDecl = map[*Term]bool{}, map[string]bool{}
		s.defined = map[*Term]string{}
		s.stack = nil
		s.ndefAtReset = s.ndef
		s.preamble()
	}
	s.sync(pc)
	var sb strings.Builder
	txt := s.emit(c, &sb)
	sb.WriteString("(push 1)\n(assert ")
	sb.WriteString(txt)
	sb.WriteString(")\n(check-sat)\n")
	s.send(sb.String())
	res = s.readAnswer()
	if res == 1 {
		model = s.getModel(vars)
	}
	s.send("(pop 1)\n")
	return res, model
}

// slice keeps only the constraints that share symbols (transitively) with c.
func sliceFor(pc []*Term, c *Term) []*Term {
	if len(pc) == 0 {
		return pc
	}
	varsOf := make([]map[*Term]bool, len(pc))
	for i, t := range pc {
		varsOf[i] = map[*Term]bool{}
		t.Vars(varsOf[i], map[*Term]bool{})
	}
	want := map[*Term]bool{}
	c.Vars(want, map[*Term]bool{})
	used := make([]bool, len(pc))
	for changed := true; changed; {
		changed = false
		for i := range pc {
			if used[i] {
				continue
			}
			hit := false
			for v := range varsOf[i] {
				if want[v] {
					hit = true
					break
				}
			}
			if hit {
				used[i] = true
				changed = true
				for v := range varsOf[i] {
					want[v] = true
				}
			}
		}
	}
	var out []*Term
	for i, t := range pc {
		if used[i] {
			out = append(out, t)
		}
	}
	return out
}

// oneShot discharges a query non-incrementally: z3's incremental core is orders of magnitude slower on
// floating point than its one-shot tactic pipeline.
func (s *Solver) oneShot(pc []*Term, c *Term, vars []*Term) (int, Model) {
	s.OneShot++
	if vars == nil {
		pc = sliceFor(pc, c)
	}
	var sb strings.Builder
	sb.WriteString("(reset)\n")
	s.send(sb.String())
	sb.Reset()
	s.declared, s.ufDecl = map[*Term]bool{}, map[string]bool{}
	s.defined = map[*Term]string{}
	s.stack = nil
	s.preamble()
	for _, t := range pc {
		txt := s.emit(t, &sb)
		sb.WriteString("(assert ")
		sb.WriteString(txt)
		sb.WriteString(")\n")
	}
	txt := s.emit(c, &sb)
	sb.WriteString("(assert ")
	sb.WriteString(txt)
	sb.WriteString(")\n(check-sat)\n")
	s.send(sb.String())
	res := s.readAnswer()
	var model Model
	if res == 1 {
		model = s.getModel(vars)
	}
	s.send("(reset)\n")
	s.declared, s.ufDecl = map[*Term]bool{}, map[string]bool{}
	s.defined = map[*Term]string{}
	s.preamble()
	return res, model
}

// getModel fetches values for vars (must follow a sat answer).
func (s *Solver) getModel(vars []*Term) Model {
	m := Model{}
	var ask []*Term
	var sb strings.Builder
	sb.WriteString("(get-value (")
	for _, v := range vars {
		if v.Op != OpVar {
			continue
		}
		if !s.declared[v] {
			m[v] = 0 // unconstrained
			continue
		}
		ask = append(ask, v)
		sb.WriteString(v.Name)
		sb.WriteString(" ")
	}
	if len(ask) == 0 {
		return m
	}
	sb.WriteString("))\n")
	s.send(sb.String())
	txt := s.readSexp()
	vals := parseValues(txt)
	for _, v := range ask {
		if x, ok := vals[v.Name]; ok {
			m[v] = x
		} else {
			m[v] = 0
		}
	}
	return m
}

// Value returns a model value of bit-vector term t under pc (ok=false if not sat).
func (s *Solver) Value(pc []*Term, t *Term) (uint64, bool) {
	start := time.Now()
	defer func() { s.Time += time.Since(start); s.Queries++ }()
	if anyFP(pc, t) {
		// one-shot: bind t to a fresh variable
		v := &Term{Op: OpVar, W: t.W, Name: "val!probe"}
		eq := &Term{Op: OpEq, W: 0, Args: []*Term{v, t}}
		res, m := s.oneShot(pc, eq, []*Term{v})
		if res != 1 {
			return 0, false
		}
		return m[v], true
	}
	s.sync(pc)
	var sb strings.Builder
	txt := s.emit(t, &sb)
	sb.WriteString("(push 1)\n(check-sat)\n")
	s.send(sb.String())
	if s.readAnswer() != 1 {
		s.send("(pop 1)\n")
		return 0, false
	}
	s.send("(get-value (" + txt + "))\n")
	out := s.readSexp()
	s.send("(pop 1)\n")
	i := strings.LastIndex(out, "#x")
	if i >= 0 {
		j := i + 2
		for j < len(out) && strings.ContainsRune("0123456789abcdefABCDEF", rune(out[j])) {
			j++
		}
		v, _ := strconv.ParseUint(out[i+2:j], 16, 64)
		return v, true
	}
	i = strings.LastIndex(out, "#b")
	if i >= 0 {
		j := i + 2
		var v uint64
		for j < len(out) && (out[j] == '0' || out[j] == '1') {
			v = v<<1 | uint64(out[j]-'0')
			j++
		}
		return v, true
	}
	if strings.Contains(out, "true") {
		return 1, true
	}
	if strings.Contains(out, "false") {
		return 0, true
	}
	return 0, false
}

func (s *Solver) readSexp() string {
	depth, started := 0, false
	var acc strings.Builder
	for !started || depth > 0 {
		l, err := s.out.ReadString('\n')
		if err != nil {
			panic(solverDied{"read: " + err.Error()})
		}
		for _, ch := range l {
			if ch == '(' {
				depth++
				started = true
			} else if ch == ')' {
				depth--
			}
		}
		acc.WriteString(l)
		if !started && strings.TrimSpace(l) != "" {
			break
		}
	}
	return acc.String()
}

// parseValues parses ((name value) ...) for bit-vector and Bool values.
func parseValues(txt string) map[string]uint64 {
	res := map[string]uint64{}
	toks := strings.Fields(strings.NewReplacer("(", " ( ", ")", " ) ").Replace(txt))
	for i := 0; i+2 < len(toks); i++ {
		if toks[i] != "(" || toks[i+1] == "(" || toks[i+1] == ")" {
			continue
		}
		name, val := toks[i+1], toks[i+2]
		switch {
		case strings.HasPrefix(val, "#x"):
			v, err := strconv.ParseUint(val[2:], 16, 64)
			if err == nil {
				res[name] = v
			}
		case strings.HasPrefix(val, "#b"):
			v, err := strconv.ParseUint(val[2:], 2, 64)
			if err == nil {
				res[name] = v
			}
		case val == "true":
			res[name] = 1
		case val == "false":
			res[name] = 0
		case val == "(" && i+5 < len(toks) && toks[i+3] == "_" && strings.HasPrefix(toks[i+4], "bv"):
			v, err := strconv.ParseUint(toks[i+4][2:], 10, 64)
			if err == nil {
				res[name] = v
			}
		}
	}
	return res
}
