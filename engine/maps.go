package main

import "strings"

func newMapObj() *MapObj { return &MapObj{idx: map[string]int{}} }

func keyHash(k Value) (string, bool) {
	var sb strings.Builder
	if !hashKey(k, &sb) {
		return "", false
	}
	return sb.String(), true
}

// entries returns the live keys and values in insertion order.
func (m *MapObj) entries() ([]Value, []Value) {
	if m.live == len(m.Keys) {
		return m.Keys, m.Vals
	}
	ks := make([]Value, 0, m.live)
	vs := make([]Value, 0, m.live)
	for i := range m.Keys {
		if !m.Dead[i] {
			ks = append(ks, m.Keys[i])
			vs = append(vs, m.Vals[i])
		}
	}
	return ks, vs
}

func (m *MapObj) undo(u undoRec) {
	switch u.mop {
	case 1: // insert: pop the last entry
		i := len(m.Keys) - 1
		if h, ok := keyHash(m.Keys[i]); ok {
			delete(m.idx, h)
		} else {
			m.nsym--
		}
		m.Keys, m.Vals, m.Dead = m.Keys[:i], m.Vals[:i], m.Dead[:i]
		m.live--
	case 2: // overwrite
		m.Vals[u.i] = u.old
	case 3: // delete: revive
		m.Dead[u.i] = false
		m.live++
		if h, ok := keyHash(m.Keys[u.i]); ok {
			m.idx[h] = u.i
		} else {
			m.nsym++
		}
	}
}

// find locates key in m, forking on symbolic equalities. Returns the entry index or -1.
func (x *Exec) mapFind(m *MapObj, key Value) int {
	h, conc := keyHash(key)
	if conc {
		if i, ok := m.idx[h]; ok {
			return i
		}
		if m.nsym == 0 {
			return -1
		}
	}
	for i, k := range m.Keys {
		if m.Dead[i] {
			continue
		}
		if conc {
			if _, kc := keyHash(k); kc {
				continue // concrete entries were handled by the index
			}
		}
		e := x.eqTerm(k, key)
		if e.IsFalse() {
			continue
		}
		if x.branch(e) {
			return i
		}
	}
	return -1
}

func (x *Exec) mapLookup(m Map, key Value) (Value, bool) {
	if m.M == nil {
		return nil, false
	}
	i := x.mapFind(m.M, key)
	if i < 0 {
		return nil, false
	}
	return m.M.Vals[i], true
}

func (x *Exec) mapUpdate(m Map, key, val Value) {
	if m.M == nil {
		goPanicf("assignment to entry in nil map")
	}
	mo := m.M
	i := x.mapFind(mo, key)
	if i >= 0 {
		if x.logUndo {
			x.undo = append(x.undo, undoRec{m: mo, mop: 2, i: i, old: mo.Vals[i]})
		}
		mo.Vals[i] = val
		return
	}
	if x.logUndo {
		x.undo = append(x.undo, undoRec{m: mo, mop: 1})
	}
	mo.Keys = append(mo.Keys, key)
	mo.Vals = append(mo.Vals, val)
	mo.Dead = append(mo.Dead, false)
	mo.live++
	if h, ok := keyHash(key); ok {
		mo.idx[h] = len(mo.Keys) - 1
	} else {
		mo.nsym++
	}
}

func (x *Exec) mapDelete(m Map, key Value) {
	if m.M == nil {
		return
	}
	mo := m.M
	i := x.mapFind(mo, key)
	if i < 0 {
		return
	}
	if x.logUndo {
		x.undo = append(x.undo, undoRec{m: mo, mop: 3, i: i})
	}
	mo.Dead[i] = true
	mo.live--
	if h, ok := keyHash(mo.Keys[i]); ok {
		delete(mo.idx, h)
	} else {
		mo.nsym--
	}
}
