package main

import (
	"fmt"
	"math"
	"strconv"
	"strings"

	"golang.org/x/tools/go/ssa"
)

// fmtArg renders one operand for the given verb.
func (x *Exec) fmtArg(spec string, verb byte, a Value) Str {
	ifc, isIface := a.(Iface)
	var v Value = a
	if isIface {
		if ifc.T == nil {
			if verb == 'v' || verb == 's' {
				return Str{S: "<nil>"}
			}
			return Str{S: "%!" + string(verb) + "(<nil>)"}
		}
		v = ifc.V
		if verb == 'T' {
			return Str{S: typeKey(ifc.T)}
		}
		if verb == 'v' || verb == 's' || verb == 'q' {
			if fn := x.lookupMethodQuiet(ifc, "Error"); fn != nil {
				r := x.callSSA(fn, []Value{ifc.V}, nil).(Str)
				return x.fmtStr(spec, verb, r)
			}
			if fn := x.lookupMethodQuiet(ifc, "String"); fn != nil && fn.Signature.Params().Len() == 0 && fn.Signature.Results().Len() == 1 {
				if r, ok := x.callSSA(fn, []Value{ifc.V}, nil).(Str); ok {
					return x.fmtStr(spec, verb, r)
				}
			}
		}
	}
	switch c := v.(type) {
	case Str:
		return x.fmtStr(spec, verb, c)
	case Int:
		if c.S == nil {
			if c.Signed {
				return Str{S: fmt.Sprintf(spec, c.conc())}
			}
			if c.W == 8 {
				return Str{S: fmt.Sprintf(spec, uint8(c.C))}
			}
			return Str{S: fmt.Sprintf(spec, c.C)}
		}
		if (verb == 'd' || verb == 'v') && spec == "%"+string(verb) && x.atoms {
			return Str{Sym: []Int{{W: 8, S: x.tt.Resize(c.S, 64, c.Signed), Atom: atomDec}}}
		}
		if verb == 'c' {
			return x.encodeRune(c)
		}
		x.notes = append(x.notes, "fmt-placeholder")
		return Str{S: "<sym-int>"}
	case Bool:
		if c.S != nil {
			c = Bool{C: x.branch(c.S)}
		}
		return Str{S: fmt.Sprintf(spec, c.C)}
	case Float:
		if c.S == nil {
			return Str{S: fmt.Sprintf(spec, c.C)}
		}
		if x.atoms {
			return Str{Sym: []Int{{W: 8, S: c.S, Atom: atomFlt}}}
		}
		return Str{S: "<sym-float>"}
	case Slice:
		if verb == 's' || verb == 'q' || verb == 'x' {
			// []byte
			if len(c.Data) == 0 {
				return x.fmtStr(spec, verb, Str{})
			}
			if _, ok := c.Data[0].(Int); ok {
				return x.fmtStr(spec, verb, bytesToStr(c.Data))
			}
		}
		r := Str{S: "["}
		for i, e := range c.Data {
			if i > 0 {
				r = x.strConcat(r, Str{S: " "})
			}
			r = x.strConcat(r, x.fmtArg("%v", 'v', e))
		}
		return x.strConcat(r, Str{S: "]"})
	case Ptr:
		if c.P == nil {
			return Str{S: "<nil>"}
		}
		return Str{S: "0xc000000000"}
	case nil:
		return Str{S: "<nil>"}
	}
	x.notes = append(x.notes, "fmt-placeholder")
	if isIface {
		return Str{S: "<" + typeKey(ifc.T) + ">"}
	}
	return Str{S: fmt.Sprintf("<%T>", v)}
}

func (x *Exec) lookupMethodQuiet(i Iface, name string) *ssa.Function {
	return x.lookupMethod(i.T, name)
}

func (x *Exec) fmtStr(spec string, verb byte, s Str) Str {
	if s.Sym == nil {
		return Str{S: fmt.Sprintf(spec, s.S)}
	}
	switch verb {
	case 's', 'v':
		if spec == "%s" || spec == "%v" || spec == "%+v" {
			return s
		}
	case 'q':
		// formatting a symbolic string with %q only happens in messages: do not fork over strconv.Quote's
		// printable/UTF-8 case analysis (the text is marked as a placeholder and never compared)
		x.notes = append(x.notes, "fmt-placeholder")
		return x.strConcat(x.strConcat(Str{S: "\""}, s), Str{S: "\""})
	}
	x.notes = append(x.notes, "fmt-placeholder")
	return s
}

// quoteSym runs strconv.Quote's own code on a symbolic string.
func (x *Exec) quoteSym(s Str) Str {
	for _, p := range x.prog.AllPackages() {
		if p.Pkg.Path() == "strconv" {
			if fn := p.Func("Quote"); fn != nil {
				return x.callSSA(fn, []Value{s}, nil).(Str)
			}
		}
	}
	unsupported("strconv.Quote not loaded")
	return Str{}
}

// format implements the subset of fmt.Sprintf used by grol.
func (x *Exec) format(f string, args []Value) Str {
	res := Str{}
	var lit strings.Builder
	flush := func() {
		if lit.Len() > 0 {
			res = x.strConcat(res, Str{S: lit.String()})
			lit.Reset()
		}
	}
	ai := 0
	for i := 0; i < len(f); i++ {
		if f[i] != '%' {
			lit.WriteByte(f[i])
			continue
		}
		j := i + 1
		for j < len(f) && strings.IndexByte("+-# 0123456789.*[]", f[j]) >= 0 {
			j++
		}
		if j >= len(f) {
			lit.WriteString("%!(NOVERB)")
			break
		}
		verb := f[j]
		spec := f[i : j+1]
		i = j
		if verb == '%' {
			lit.WriteByte('%')
			continue
		}
		if strings.ContainsAny(spec, "*[") {
			unsupported("fmt spec %q", spec)
		}
		if ai >= len(args) {
			lit.WriteString("%!" + string(verb) + "(MISSING)")
			continue
		}
		if verb == 'w' {
			verb, spec = 'v', "%v"
		}
		flush()
		res = x.strConcat(res, x.fmtArg(spec, verb, args[ai]))
		ai++
	}
	flush()
	if ai < len(args) {
		res = x.strConcat(res, Str{S: "%!(EXTRA)"})
	}
	return res
}

func isStrOperand(a Value) bool {
	if i, ok := a.(Iface); ok {
		_, s := i.V.(Str)
		return s && i.T != nil
	}
	return false
}

// sprint implements fmt.Sprint / Sprintln operand spacing.
func (x *Exec) sprint(args []Value, ln bool) Str {
	res := Str{}
	for i, a := range args {
		if i > 0 && (ln || (!isStrOperand(a) && !isStrOperand(args[i-1]))) {
			res = x.strConcat(res, Str{S: " "})
		}
		res = x.strConcat(res, x.fmtArg("%v", 'v', a))
	}
	if ln {
		res = x.strConcat(res, Str{S: "\n"})
	}
	return res
}

// ---- atoms: string segments of unknown length standing for the text of a symbolic number

// atomLen returns a symbolic length for a string holding atoms: #bytes + Σ len(atom), 1..20 bytes per atom.
func (x *Exec) atomLen(s Str) Int {
	lo, hi := 0, 0
	for _, b := range s.Sym {
		switch b.Atom {
		case 0:
			lo, hi = lo+1, hi+1
		case atomQuo:
			lo, hi = lo+2+len(b.S.Args), hi+2+4*len(b.S.Args)
		default:
			lo, hi = lo+1, hi+24
		}
	}
	l := x.freshVar("atomlen", 64)
	tt := x.tt
	x.addPC(tt.And(tt.Cmp(OpSle, tt.Const(64, uint64(lo)), l), tt.Cmp(OpSle, l, tt.Const(64, uint64(hi)))))
	return Int{W: 64, Signed: true, S: l}
}

// atomStrEq compares two strings of which at least one holds atoms. Structurally equal shapes are compared
// position-wise (exact); a structural mismatch is concretised under a model of the path: if the concrete
// texts differ the mismatch is a candidate counterexample (confirmed by native replay), if they agree the
// comparison cannot be decided for all values and the path is inconclusive.
func (x *Exec) atomStrEq(a, b Str) *Term {
	as, bs := strBytes(a), strBytes(b)
	same := len(as) == len(bs)
	if same {
		for i := range as {
			if as[i].Atom != bs[i].Atom {
				same = false
				break
			}
		}
	}
	tt := x.tt
	if same {
		r := tt.tru
		for i := range as {
			r = tt.And(r, x.byteEq(as[i], bs[i]))
		}
		return r
	}
	// shapes differ: concretise under a model
	res, m := x.solver.Check(x.pc, tt.tru, x.symVars)
	if res != 1 {
		panic(pathEnd{"infeasible"})
	}
	ca, oka := x.concretizeStr(as, m)
	cb, okb := x.concretizeStr(bs, m)
	if !oka || !okb {
		unsupported("atom string comparison (float atoms)")
	}
	if ca != cb {
		// pin the model so the counterexample reports these very values
		for _, v := range x.symVars {
			if v.W > 0 && v.W <= 64 {
				x.addPC(tt.Cmp(OpEq, v, tt.Const(v.W, m[v])))
			}
		}
		x.model = m
		x.notes = append(x.notes, "atom-shapes-differ: concretised "+strconv.Quote(ca)+" vs "+strconv.Quote(cb))
		return tt.fls
	}
	unsupported("atom string comparison with different shapes that agree on the sampled model")
	return nil
}

func (x *Exec) concretizeStr(bs []Int, m Model) (string, bool) {
	var sb strings.Builder
	cache := map[*Term]uint64{}
	for _, b := range bs {
		switch {
		case b.Atom == atomDec:
			v, ok := m.Eval(b.S, cache)
			if !ok {
				return "", false
			}
			sb.WriteString(strconv.FormatInt(int64(v), 10))
		case b.Atom == atomFlt:
			v, ok := m.Eval(b.S, cache)
			if !ok {
				return "", false
			}
			sb.WriteString(strconv.FormatFloat(math.Float64frombits(v), 'g', -1, 64))
		case b.Atom == atomQuo:
			raw := make([]byte, len(b.S.Args))
			for i, a := range b.S.Args {
				v, ok := m.Eval(a, cache)
				if !ok {
					return "", false
				}
				raw[i] = byte(v)
			}
			sb.WriteString(strconv.Quote(string(raw)))
		case b.S != nil:
			v, ok := m.Eval(b.S, cache)
			if !ok {
				return "", false
			}
			sb.WriteByte(byte(v))
		default:
			sb.WriteByte(byte(b.C))
		}
	}
	return sb.String(), true
}
