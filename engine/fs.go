package main

import (
	"fmt"
	"go/types"
	"path/filepath"
	"sort"
)

// fsModel is the in-memory file-system model (DESIGN §2.7): name -> bytes; rename atomic; data accepted by
// Write survives the death of the process; no fsync modelling. It carries an operation counter, an optional
// crash index (the process "dies" just before that operation) and an optional failing write.
type fsModel struct {
	files     []*fsFile
	handles   []*fsHandle
	ops       []fsOp
	crashAt   int // -1: never
	failWrite int // index among Write operations that fails; -1: none
	nWrites   int
	tmpSeq    int
	crashed   bool
}

type fsFile struct {
	path Str
	data []Value
	gone bool
}

type fsHandle struct {
	file   *fsFile
	pos    int
	closed bool
	name   Str
	write  bool
	read   bool
	append bool
}

type fsOp struct {
	Kind string
	Path Str
}

func newFS() *fsModel { return &fsModel{crashAt: -1, failWrite: -1} }

var osFilePtr, osPathErrorPtr types.Type

func (x *Exec) fileType() types.Type {
	if osFilePtr == nil {
		for _, p := range x.prog.AllPackages() {
			if p.Pkg.Path() == "os" {
				if tn := p.Type("File"); tn != nil {
					osFilePtr = types.NewPointer(tn.Type())
				}
			}
		}
	}
	return osFilePtr
}

type fsCrash struct{}

// step counts one file-system operation; at the crash index the process dies: a Go panic carrying the
// sentinel string "verif: process killed" unwinds to the harness (which must not be recovered by the code
// under test; repl.AutoSave has no recover).
func (f *fsModel) step(x *Exec, kind string, path Str) {
	if f.crashAt >= 0 && len(f.ops) == f.crashAt {
		f.crashed = true
		panic(goPanic{msg: "verif: process killed", val: Iface{T: types.Typ[types.String], V: Str{S: "verif: process killed"}}, site: "fs-model"})
	}
	f.ops = append(f.ops, fsOp{kind, path})
}

func cleanPath(s Str) Str {
	if s.Sym == nil && s.S != "" {
		return Str{S: filepath.Clean(s.S)}
	}
	return s
}

// find locates an existing file by path (forking on symbolic equality).
func (f *fsModel) find(x *Exec, path Str) *fsFile {
	path = cleanPath(path)
	for _, fl := range f.files {
		if fl.gone {
			continue
		}
		e := x.strEq(fl.path, path)
		if e.IsFalse() {
			continue
		}
		if x.branch(e) {
			return fl
		}
	}
	return nil
}

func (f *fsModel) newHandle(x *Exec, fl *fsFile, name Str, write bool) Value {
	f.handles = append(f.handles, &fsHandle{file: fl, name: name, write: write})
	var cell Value = Struct{mkI64(int64(len(f.handles) - 1))}
	return Ptr{&cell}
}

func (f *fsModel) handle(v Value) *fsHandle {
	p, ok := v.(Ptr)
	if !ok || p.P == nil {
		goPanicf("invalid memory address or nil pointer dereference")
	}
	s, ok := (*p.P).(Struct)
	if !ok || len(s) != 1 {
		unsupported("operation on a real *os.File (os.Stdin/Stdout) under the fs model")
	}
	return f.handles[int(s[0].(Int).conc())]
}

// isDir tells if path is a directory of the model: some file lives below it (forking on symbolic equality).
func (f *fsModel) isDir(x *Exec, path Str) bool {
	path = cleanPath(path)
	n := path.Len()
	for _, fl := range f.files {
		if fl.gone || fl.path.Len() <= n+1 {
			continue
		}
		pre := x.strSlice(fl.path, 0, n)
		sep := x.strByte(fl.path, n)
		if sep.S != nil || sep.C != '/' {
			continue
		}
		e := x.strEq(pre, path)
		if e.IsFalse() {
			continue
		}
		if x.branch(e) {
			return true
		}
	}
	return false
}

func (f *fsModel) create(x *Exec, name Str) Value {
	f.step(x, "create", name)
	if f.isDir(x, name) {
		return nil
	}
	fl := f.find(x, name)
	if fl == nil {
		fl = &fsFile{path: cleanPath(name)}
		f.files = append(f.files, fl)
	}
	fl.data = nil // truncate
	return f.newHandle(x, fl, name, true)
}

func (f *fsModel) write(x *Exec, args []Value) Value {
	h := f.handle(args[0])
	var data []Value
	switch a := args[1].(type) {
	case Slice:
		data = a.Data
	case Str:
		data = strToBytes(a)
	}
	f.step(x, "write", h.name)
	if h.closed {
		return ret2(mkI64(0), x.mkError("write "+describe(h.name)+": file already closed"))
	}
	if !h.write {
		return ret2(mkI64(0), x.mkError("write "+describe(h.name)+": bad file descriptor"))
	}
	idx := f.nWrites
	f.nWrites++
	if idx == f.failWrite {
		// a failing write may have transferred a prefix of the data: half of it
		n := len(data) / 2
		h.writeAtPos(data[:n])
		return ret2(mkI64(int64(n)), x.mkError("write "+describe(h.name)+": no space left on device"))
	}
	h.writeAtPos(data)
	return ret2(mkI64(int64(len(data))), Iface{})
}

// writeAtPos stores data at the handle's offset (the end of the file in append mode), overwriting what is
// there and extending the file as needed; the offset moves past the written bytes.
func (h *fsHandle) writeAtPos(data []Value) {
	nd := append([]Value{}, h.file.data...)
	if h.append {
		h.pos = len(nd)
	}
	for len(nd) < h.pos {
		nd = append(nd, Int{W: 8}) // a hole reads as zero bytes
	}
	for i, b := range data {
		if h.pos+i < len(nd) {
			nd[h.pos+i] = b
		} else {
			nd = append(nd, b)
		}
	}
	h.pos += len(data)
	h.file.data = nd
}

func (f *fsModel) intrinsic(x *Exec, name string, args []Value) (Value, bool) {
	switch name {
	case "os.Create":
		h := f.create(x, args[0].(Str))
		if h == nil {
			return ret2(Ptr{}, x.mkError("open "+describe(args[0].(Str))+": is a directory")), true
		}
		return ret2(h, Iface{}), true
	case "os.Open":
		nm := args[0].(Str)
		f.step(x, "open", nm)
		fl := f.find(x, nm)
		if fl == nil {
			return ret2(Ptr{}, x.notExist("open", nm)), true
		}
		return ret2(f.newHandle(x, fl, nm, false), Iface{}), true
	case "os.OpenFile":
		nm := args[0].(Str)
		flag := int(args[1].(Int).conc())
		const oWRONLY, oRDWR, oCREATE, oEXCL, oTRUNC, oAPPEND = 0x1, 0x2, 0x40, 0x80, 0x200, 0x400
		f.step(x, "open", nm)
		if flag&(oWRONLY|oRDWR) != 0 && f.isDir(x, nm) {
			return ret2(Ptr{}, x.mkError("open "+describe(nm)+": is a directory")), true
		}
		fl := f.find(x, nm)
		switch {
		case fl == nil && flag&oCREATE == 0:
			return ret2(Ptr{}, x.notExist("open", nm)), true
		case fl != nil && flag&oCREATE != 0 && flag&oEXCL != 0:
			return ret2(Ptr{}, x.mkError("open "+describe(nm)+": file exists")), true
		case fl == nil:
			fl = &fsFile{path: cleanPath(nm)}
			f.files = append(f.files, fl)
		}
		wr := flag&(oWRONLY|oRDWR) != 0
		if flag&oTRUNC != 0 && wr {
			fl.data = nil
		}
		hv := f.newHandle(x, fl, nm, wr)
		h := f.handles[len(f.handles)-1]
		h.read = flag&oWRONLY == 0
		h.append = flag&oAPPEND != 0
		return ret2(hv, Iface{}), true
	case "(*os.File).Seek":
		h := f.handle(args[0])
		off, whence := int(int64(args[1].(Int).conc())), int(args[2].(Int).conc())
		switch whence {
		case 1:
			off += h.pos
		case 2:
			off += len(h.file.data)
		}
		if off < 0 {
			return ret2(mkI64(0), x.mkError("seek "+describe(h.name)+": invalid argument")), true
		}
		h.pos = off
		return ret2(mkI64(int64(off)), Iface{}), true
	case "(*os.File).Truncate", "os.Truncate":
		var fl *fsFile
		var nm Str
		if name == "os.Truncate" {
			nm = args[0].(Str)
			if fl = f.find(x, nm); fl == nil {
				return x.notExist("truncate", nm), true
			}
		} else {
			h := f.handle(args[0])
			fl, nm = h.file, h.name
		}
		f.step(x, "truncate", nm)
		size := int(int64(args[1].(Int).conc()))
		if size < 0 {
			return x.mkError("truncate " + describe(nm) + ": invalid argument"), true
		}
		nd := append([]Value{}, fl.data...)
		for len(nd) < size {
			nd = append(nd, Int{W: 8})
		}
		fl.data = nd[:size]
		return Iface{}, true
	case "os.CreateTemp":
		dir, pat := args[0].(Str), concStr(args[1])
		f.tmpSeq++
		base := pat
		for i := len(pat) - 1; i >= 0; i-- {
			if pat[i] == '*' {
				base = pat[:i] + fmt.Sprintf("%09d", 424242+f.tmpSeq) + pat[i+1:]
				break
			}
		}
		if base == pat {
			base = pat + fmt.Sprintf("%09d", 424242+f.tmpSeq)
		}
		d := concStr(dir)
		if d == "" {
			d = "/tmp"
		}
		nm := Str{S: d + "/" + base}
		return ret2(f.create(x, nm), Iface{}), true
	case "os.Rename":
		from, to := args[0].(Str), args[1].(Str)
		f.step(x, "rename", to)
		src := f.find(x, from)
		if src == nil {
			return x.notExist("rename", from), true
		}
		if f.isDir(x, to) {
			return x.mkError("rename " + describe(from) + " " + describe(to) + ": file exists"), true
		}
		if dst := f.find(x, to); dst != nil && dst != src {
			dst.gone = true
		}
		src.path = cleanPath(to)
		return Iface{}, true
	case "os.Remove":
		nm := args[0].(Str)
		f.step(x, "remove", nm)
		fl := f.find(x, nm)
		if fl == nil {
			return x.notExist("remove", nm), true
		}
		fl.gone = true
		return Iface{}, true
	case "os.WriteFile":
		nm := args[0].(Str)
		h := f.create(x, nm)
		if h == nil {
			return x.mkError("open " + describe(nm) + ": is a directory"), true
		}
		r := f.write(x, []Value{h, args[1]}).(Tuple)
		return r[1], true
	case "os.ReadFile":
		nm := args[0].(Str)
		f.step(x, "open", nm)
		fl := f.find(x, nm)
		if fl == nil {
			return ret2(Slice{Nil: true}, x.notExist("open", nm)), true
		}
		return ret2(Slice{Data: append([]Value{}, fl.data...)}, Iface{}), true
	case "(*os.File).Close":
		h := f.handle(args[0])
		if h.closed {
			return x.mkError("close " + describe(h.name) + ": file already closed"), true
		}
		h.closed = true
		return Iface{}, true
	case "(*os.File).Name":
		return f.handle(args[0]).name, true
	case "(*os.File).Sync":
		f.step(x, "sync", f.handle(args[0]).name)
		return Iface{}, true
	case "(*os.File).Read":
		h := f.handle(args[0])
		buf := args[1].(Slice)
		if h.pos >= len(h.file.data) {
			return ret2(mkI64(0), x.eofError()), true
		}
		n := len(h.file.data) - h.pos
		if n > len(buf.Data) {
			n = len(buf.Data)
		}
		for i := 0; i < n; i++ {
			x.store(&buf.Data[i], h.file.data[h.pos+i])
		}
		h.pos += n
		return ret2(mkI64(int64(n)), Iface{}), true
	case "io.ReadAll":
		if i, ok := args[0].(Iface); ok && i.T != nil && x.identical(i.T, x.fileType()) {
			h := f.handle(i.V)
			d := append([]Value{}, h.file.data[h.pos:]...)
			h.pos = len(h.file.data)
			return ret2(Slice{Data: d}, Iface{}), true
		}
	}
	return nil, false
}

func (x *Exec) notExist(op string, nm Str) Value {
	// os.ErrNotExist identity matters for errors.Is(err, os.ErrNotExist): return that very value
	if v := x.wellKnownErr("os", "ErrNotExist"); v != nil {
		return v
	}
	return x.mkError(op + " " + describe(nm) + ": no such file or directory")
}

func (x *Exec) eofError() Value {
	if v := x.wellKnownErr("io", "EOF"); v != nil {
		return v
	}
	return x.mkError("EOF")
}

// wellKnownErr returns the value of an exported error variable, creating a stable sentinel if the package
// was not initialised by the executor.
func (x *Exec) wellKnownErr(pkg, name string) Value {
	key := pkg + "." + name
	if x.sentinels == nil {
		x.sentinels = map[string]Value{}
	}
	if v, ok := x.sentinels[key]; ok {
		return v
	}
	for _, p := range x.prog.AllPackages() {
		if p.Pkg.Path() != pkg {
			continue
		}
		g := p.Var(name)
		if g == nil {
			return nil
		}
		cell := x.global(g)
		if i, ok := (*cell).(Iface); ok && i.T != nil {
			x.sentinels[key] = i
			return i
		}
		v := x.mkError(key)
		saved := x.logUndo
		x.logUndo = false
		*cell = v
		x.logUndo = saved
		x.sentinels[key] = v
		return v
	}
	return nil
}

// harness-visible API of the model

func (x *Exec) fsAPI(name string, args []Value) (Value, bool) {
	switch name {
	case "vFSEnable":
		x.fs = newFS()
		x.wellKnownErr("os", "ErrNotExist")
		x.wellKnownErr("io", "EOF")
		x.stubsHit["file-system model (os.Create/Open/CreateTemp/Rename/WriteFile, (*os.File).Write/Close/Name/Read, io.ReadAll)"] = true
		return nil, true
	case "vFSWriteFile":
		if x.fs == nil {
			x.fs = newFS()
		}
		fl := x.fs.find(x, args[0].(Str))
		if fl == nil {
			fl = &fsFile{path: cleanPath(args[0].(Str))}
			x.fs.files = append(x.fs.files, fl)
		}
		fl.data = strToBytes(args[1].(Str))
		return nil, true
	case "vFSList":
		var d []Value
		if x.fs != nil {
			var conc []string
			var sym []Value
			for _, fl := range x.fs.files {
				if fl.gone {
					continue
				}
				if fl.path.Sym == nil {
					conc = append(conc, fl.path.S)
				} else {
					sym = append(sym, fl.path)
				}
			}
			sort.Strings(conc)
			for _, c := range conc {
				d = append(d, Str{S: c})
			}
			d = append(d, sym...)
		}
		if d == nil {
			return Slice{Nil: true}, true
		}
		return Slice{Data: d}, true
	case "vFSContent":
		if x.fs == nil {
			return ret2(Str{}, Bool{}), true
		}
		fl := x.fs.find(x, args[0].(Str))
		if fl == nil {
			return ret2(Str{}, Bool{}), true
		}
		return ret2(bytesToStr(append([]Value{}, fl.data...)), Bool{C: true}), true
	case "vFSCrashAt":
		x.fs.crashAt = len(x.fs.ops) + int(args[0].(Int).conc())
		return nil, true
	case "vFSFailWriteAt":
		x.fs.failWrite = x.fs.nWrites + int(args[0].(Int).conc())
		return nil, true
	case "vFSNumOps":
		if x.fs == nil {
			return mkI64(0), true
		}
		return mkI64(int64(len(x.fs.ops))), true
	case "vFSOpKind":
		return Str{S: x.fs.ops[int(args[0].(Int).conc())].Kind}, true
	case "vFSOpPath":
		return x.fs.ops[int(args[0].(Int).conc())].Path, true
	case "vFSCrashed":
		return Bool{C: x.fs != nil && x.fs.crashed}, true
	}
	return nil, false
}
