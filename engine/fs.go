package main

// fsModel is the in-memory file-system model used by the C17/C18 harnesses (see fsmodel in DESIGN §2.7).
type fsModel struct{}

func (f *fsModel) write(x *Exec, args []Value) Value { unsupported("fs model not enabled"); return nil }
func (f *fsModel) intrinsic(x *Exec, name string, args []Value) (Value, bool) {
	return nil, false
}
