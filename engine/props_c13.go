package main

import (
	"strings"
	"time"
)

type macroT struct {
	params []string
	body   string // uses unquote(p)
}

func c13Jobs(tier string) []Job {
	templates := []macroT{
		{[]string{"u"}, "unquote(u) OP 1"}, {[]string{"u"}, "1 OP unquote(u)"}, {[]string{"u"}, "f(unquote(u))"}, {[]string{"u"}, "[unquote(u)][0]"},
		{[]string{"u"}, "if unquote(u) OP 0 == 0 {1} else {2}"}, {[]string{"u", "v"}, "unquote(u); unquote(v)"}, {[]string{"u"}, "unquote(u) OP unquote(u)"},
		{[]string{"u", "v"}, "unquote(u) OP unquote(v)"}, {[]string{"u", "v"}, "unquote(v) OP unquote(u) OP unquote(v)"}, {[]string{}, "1 OP 2"},
		{[]string{"u"}, "-unquote(u)"}, {[]string{"u"}, "unquote(u)[0]"}, {[]string{"u", "v", "w"}, "if unquote(u) {unquote(v)} else {unquote(w)}"},
		{[]string{"u", "v", "w", "z"}, "unquote(u) + unquote(v) * unquote(w) - unquote(z)"}, {[]string{"u"}, "func(t){t OP unquote(u)}(3)"},
		{[]string{"u"}, "for i = 2 {unquote(u)}"}, {[]string{"u", "v"}, "unquote(u)"}, {[]string{"u"}, "{1: unquote(u)}[1]"},
		// one parameter used several times inside one container
		{[]string{"u"}, "[unquote(u), unquote(u), unquote(u)]"}, {[]string{"u"}, "{unquote(u): 1, unquote(u): 2}"}, {[]string{"u", "v"}, "{unquote(u): unquote(v), unquote(v): unquote(u)}"},
		{[]string{"u"}, "{1: unquote(u), 2: unquote(u)}"}, {[]string{"u"}, "f(unquote(u)) OP f(unquote(u))"}, {[]string{"u"}, "if unquote(u) {unquote(u)} else {unquote(u)}"},
	}
	ops := []string{"+", "*", "-", "<", "&&", "=="}
	if tier == "thorough" {
		ops = append(ops, "/", "%", "||", "<<", "|", ">=")
	}
	argSets := [][]string{
		{"a", "b", "c", "d"}, {"a + b", "c - d", "a * c", "b"}, {`println("x")`, `println("y")`, "a", "b"}, {"10 / a", "b % c", "a", "d"},
		{"a < b", "b < c", "p", "q"}, {"[a, b]", "[c]", "[d]", "[a]"}, {"f(a)", "f(b + 1)", "f(c)", "d"}, {"a - b", "a - c", "b - c", "c - d"},
		{"g(a + b)", "a", "b", "c"}, {"x => x + a", "b", "c", "d"}, {"-a", "-b", "!p", "q"},
	}
	prelude := "func f(t){t+1}; func g(t){println(\"g\", t); t*2}\n"
	var jobs []Job
	for ti, t := range templates {
		for _, op := range ops {
			if !strings.Contains(t.body, "OP") && op != ops[0] {
				continue
			}
			body := strings.ReplaceAll(t.body, "OP", op)
			def := "m = macro(" + strings.Join(t.params, ",") + ") {quote(" + body + ")}"
			for ai, as := range argSets {
				if tier != "thorough" && (ti+ai)%2 == 1 && len(t.params) > 0 {
					continue
				}
				call := "m(" + strings.Join(as[:len(t.params)], ", ") + ")"
				sub := body
				for i, p := range t.params {
					sub = strings.ReplaceAll(sub, "unquote("+p+")", "("+as[i]+")")
				}
				// call sites: top level, in a function, in a loop, as a macro argument, two sites
				sites := [][2]string{
					{call, "(" + sub + ")"},
					{"func w(){" + call + "}; w()", "func w(){(" + sub + ")}; w()"},
					{"r = 0; for k = 2 {r = " + call + "}; r", "r = 0; for k = 2 {r = (" + sub + ")}; r"},
					{"[" + call + ", " + call + "]", "[(" + sub + "), (" + sub + ")]"},
				}
				for si, site := range sites {
					if si > 0 && tier != "thorough" && (ti+ai+si)%3 != 0 {
						continue
					}
					jobs = append(jobs, Job{Prop: "C13", Pkg: "eval", Func: "VerifMacro", Args: []string{def, prelude + site[0], prelude + site[1], "m"}, MaxDec: 800})
				}
				if len(t.params) == 0 {
					break
				}
			}
		}
	}
	// a macro call as argument of another macro; several definitions; across the two expansions of a session
	jobs = append(jobs,
		Job{Prop: "C13", Pkg: "eval", Func: "VerifMacro", MaxDec: 800, Args: []string{
			"m = macro(u){quote(unquote(u) + 1)}\nn = macro(u, v){quote(unquote(u) * unquote(v))}",
			"n(m(a), m(b - 1))", "((a) + 1) * ((b - 1) + 1)", "m,n"}},
		Job{Prop: "C13", Pkg: "eval", Func: "VerifMacro", MaxDec: 800, Args: []string{
			"m = macro(u){quote(unquote(u) + 1)}\nn = macro(u, v){quote(unquote(u) * unquote(v))}\no = macro(){quote(7)}\np = macro(u){quote(-unquote(u))}",
			"n(m(a), p(b)) + o()", "((a) + 1) * (-(b)) + (7)", "m,n,o,p"}},
		// a parameter named like a variable the session already binds; a call with too many / too few arguments
		Job{Prop: "C13", Pkg: "eval", Func: "VerifMacro", MaxDec: 800, Args: []string{
			"m = macro(a){quote(unquote(a) * 2)}", "m(b + 1) + a", "((b + 1)) * 2 + a", "m"}},
		Job{Prop: "C13", Pkg: "eval", Func: "VerifMacro", MaxDec: 800, Args: []string{
			"m = macro(a, b){quote(unquote(b) - unquote(a))}", "[m(c, a), a, b]", "[((a)) - ((c)), a, b]", "m"}},
		Job{Prop: "C13", Pkg: "eval", Func: "VerifMacro", MaxDec: 800, Args: []string{
			"m = macro(u){quote(unquote(u) + 1)}", "m(b, c)", `error("wrong number of macro arguments, want=1, got=2")`, "m"}},
		Job{Prop: "C13", Pkg: "eval", Func: "VerifMacro", MaxDec: 800, Args: []string{
			"m = macro(u, v){quote(unquote(u) + unquote(v))}", "m(b)", `error("wrong number of macro arguments, want=2, got=1")`, "m"}},
		Job{Prop: "C13", Pkg: "eval", Func: "VerifMacro", MaxDec: 800, Args: []string{
			"m = macro(){quote(7)}", "m(println(b))", `error("wrong number of macro arguments, want=0, got=1")`, "m"}},
		// a macro call inside another macro's template is part of the program once substituted
		Job{Prop: "C13", Pkg: "eval", Func: "VerifMacro", MaxDec: 800, Args: []string{
			"m1 = macro(u){quote(unquote(u) * 2)}\nm2 = macro(u){quote(m1(unquote(u)) + 1)}",
			"m2(b) - m1(c)", "(((b)) * 2 + 1) - ((c) * 2)", "m1,m2"}},
		Job{Prop: "C13", Pkg: "eval", Func: "VerifMacro", MaxDec: 800, Args: []string{
			"m1 = macro(u){quote(unquote(u) - 1)}\nm2 = macro(u, v){quote(m1(m1(unquote(u))) * m1(unquote(v)))}",
			"m2(b, c + 1)", "(((b) - 1) - 1) * ((c + 1) - 1)", "m1,m2"}},
		// a parameter named like another macro
		Job{Prop: "C13", Pkg: "eval", Func: "VerifMacro", MaxDec: 800, Args: []string{
			"am = macro(u){quote(unquote(u) + 1)}\nm = macro(am){quote(unquote(am) * 2)}",
			"am(b) + m(c) + am(b)", "((b) + 1) + ((c) * 2) + ((b) + 1)", "am,m"}},
		Job{Prop: "C13", Pkg: "eval", Func: "VerifMacro", MaxDec: 800, Args: []string{
			"m = macro(m){quote(unquote(m) - 1)}\nn = macro(m, n){quote(unquote(m) - unquote(n))}",
			"m(b) * n(c, b) * m(c)", "((b) - 1) * ((c) - (b)) * ((c) - 1)", "m,n"}},
		Job{Prop: "C13", Pkg: "eval", Func: "VerifMacro", MaxDec: 800, Args: []string{
			"unless = macro(cond, yes, no){quote(if !(unquote(cond)) {unquote(yes)} else {unquote(no)})}",
			`unless(a > b, println("not greater"), println("greater"))`, `if !(a > b) {(println("not greater"))} else {(println("greater"))}`, "unless"}},
		Job{Prop: "C13", Pkg: "eval", Func: "VerifMacro", MaxDec: 800, Args: []string{
			"m = macro(u){quote(unquote(u) - unquote(u))}", "m(a - b) - m(c)", "((a - b) - (a - b)) - ((c) - (c))", "m"}},
	)
	return jobs
}

func init() {
	register(&PropSpec{
		ID:     "C13",
		Jobs:   func(tier string, seed int64) []Job { return c13Jobs(tier) },
		Budget: map[string]time.Duration{"quick": 8 * time.Minute, "thorough": 60 * time.Minute},
		Reach:  []string{"expanded"},
		Bounds: map[string]interface{}{"templates": "24 quoted templates (incl. one parameter used several times inside one array / map / call / if) with 0..4 parameters each used 0..3 times at operand, call-argument, index, condition, statement, loop-body, lambda-body and map-value positions, the operator next to the unquote taken from 6 operators (12 thorough)",
			"arguments":  "11 argument sets: identifiers, infix expressions binding looser and tighter than the template context, printing calls, arguments that fail if evaluated (10/a), comparisons, arrays, calls, a lambda, prefix expressions",
			"call_sites": "top level, inside a function, inside a loop, twice in one array literal; a macro call as argument of another macro; a three-parameter control macro",
			"values":     "all int64 for a,b,c,d; booleans p,q"},
		Outside: []string{"deeper templates", "unquote of values other than integers, booleans and quotes"},
	})
}
