package main

import (
	"fmt"
	"go/types"
	"math"
	"strconv"
	"strings"

	"golang.org/x/tools/go/ssa"
)

type Value interface{}

// Int is any integer-kinded scalar (incl. bytes, runes, uintptr), W bits.
// An Int with Atom != 0 is a pseudo-byte inside a string standing for the decimal text of S (see atoms).
type Int struct {
	W      int
	Signed bool
	C      uint64 // concrete value (masked), valid when S==nil
	S      *Term  // symbolic term of width W, or nil
	Atom   uint8  // 0: ordinary; atomDec / atomFlt: string segment of unknown length printing term S
}

const (
	atomDec uint8 = 1 // decimal text of the signed 64-bit term S
	atomFlt uint8 = 2 // %g-style text of the float term S
	atomQuo uint8 = 3 // strconv.Quote text of the bytes that are the arguments of the UF term S
)

type Bool struct {
	C bool
	S *Term
}

type Float struct {
	C   float64
	S   *Term
	F32 bool
}

// Str: concrete when Sym==nil; otherwise Sym holds one Int(W=8) per byte (or atom).
type Str struct {
	S   string
	Sym []Int
}

func (s Str) Len() int {
	if s.Sym != nil {
		return len(s.Sym)
	}
	return len(s.S)
}

func (s Str) HasAtom() bool {
	for _, b := range s.Sym {
		if b.Atom != 0 {
			return true
		}
	}
	return false
}

type Struct []Value
type Array []Value
type Ptr struct{ P *Value } // P==nil is the nil pointer
type Slice struct {
	Data []Value // Go slice: shares the backing array; len/cap are Go's
	Nil  bool
}
type Iface struct {
	T types.Type // nil => nil interface
	V Value
}
type Closure struct {
	Fn  *ssa.Function
	Env []Value
}
type Map struct {
	M *MapObj // nil map if nil
}
type Tuple []Value
type Func struct{ Fn *ssa.Function }
type Builtin struct{ B *ssa.Builtin }
type NilFunc struct{}
type NoopFunc struct{} // model of a cancel function etc.

// NativeFunc is a Go-implemented function value (used by models).
type NativeFunc struct {
	Name string
	F    func(x *Exec, args []Value) Value
}

// MapObj: insertion-ordered entries with a hash index over concrete keys.
type MapObj struct {
	Keys []Value
	Vals []Value
	Dead []bool         // deleted entries (kept to preserve indices for undo); compacted lazily
	idx  map[string]int // concrete key -> entry
	nsym int            // number of live entries with a non-hashable (symbolic) key
	live int
}

func intInfo(t types.Type) (w int, signed bool, ok bool) {
	b, isb := t.Underlying().(*types.Basic)
	if !isb {
		return 0, false, false
	}
	switch b.Kind() {
	case types.Int, types.Int64, types.UntypedInt:
		return 64, true, true
	case types.Int32, types.UntypedRune:
		return 32, true, true
	case types.Int16:
		return 16, true, true
	case types.Int8:
		return 8, true, true
	case types.Uint, types.Uint64, types.Uintptr:
		return 64, false, true
	case types.Uint32:
		return 32, false, true
	case types.Uint16:
		return 16, false, true
	case types.Uint8:
		return 8, false, true
	}
	return 0, false, false
}

func isFloat(t types.Type) (f32 bool, ok bool) {
	b, isb := t.Underlying().(*types.Basic)
	if !isb {
		return false, false
	}
	switch b.Kind() {
	case types.Float64, types.UntypedFloat:
		return false, true
	case types.Float32:
		return true, true
	}
	return false, false
}

func zero(t types.Type) Value {
	switch u := t.Underlying().(type) {
	case *types.Basic:
		if w, s, ok := intInfo(t); ok {
			return Int{W: w, Signed: s}
		}
		switch u.Kind() {
		case types.Bool, types.UntypedBool:
			return Bool{}
		case types.String, types.UntypedString:
			return Str{}
		case types.UnsafePointer:
			return Ptr{}
		case types.Float64, types.UntypedFloat:
			return Float{}
		case types.Float32:
			return Float{F32: true}
		case types.UntypedNil:
			return nil
		}
		panic(pathEnd{fmt.Sprintf("unsupported: zero of basic %v", u)})
	case *types.Struct:
		s := make(Struct, u.NumFields())
		for i := range s {
			s[i] = zero(u.Field(i).Type())
		}
		return s
	case *types.Array:
		a := make(Array, u.Len())
		for i := range a {
			a[i] = zero(u.Elem())
		}
		return a
	case *types.Pointer:
		return Ptr{}
	case *types.Slice:
		return Slice{Nil: true}
	case *types.Map:
		return Map{}
	case *types.Interface:
		return Iface{}
	case *types.Signature:
		return NilFunc{}
	case *types.Chan:
		return Ptr{}
	case *types.Tuple:
		tu := make(Tuple, u.Len())
		for i := range tu {
			tu[i] = zero(u.At(i).Type())
		}
		return tu
	}
	panic(pathEnd{fmt.Sprintf("unsupported: zero of type %v (%T)", t, t.Underlying())})
}

// copyVal copies value-typed aggregates (struct, array); everything else is shared.
func copyVal(v Value) Value {
	switch v := v.(type) {
	case Struct:
		n := make(Struct, len(v))
		for i, f := range v {
			n[i] = copyVal(f)
		}
		return n
	case Array:
		n := make(Array, len(v))
		for i, f := range v {
			n[i] = copyVal(f)
		}
		return n
	}
	return v
}

func (i Int) conc() int64 {
	if i.Signed {
		return sext64(i.C, i.W)
	}
	return int64(i.C)
}

func mkI64(v int64) Int  { return Int{W: 64, Signed: true, C: uint64(v)} }
func mkByte(b byte) Int  { return Int{W: 8, C: uint64(b)} }
func mkStr(s string) Str { return Str{S: s} }

// hashKey returns a canonical string for a fully concrete, comparable value (ok=false when symbolic).
func hashKey(v Value, sb *strings.Builder) bool {
	switch v := v.(type) {
	case Int:
		if v.S != nil {
			return false
		}
		sb.WriteByte('i')
		sb.WriteString(strconv.FormatUint(v.C, 16))
		sb.WriteByte(';')
	case Bool:
		if v.S != nil {
			return false
		}
		if v.C {
			sb.WriteString("T;")
		} else {
			sb.WriteString("F;")
		}
	case Float:
		if v.S != nil {
			return false
		}
		if v.C != v.C {
			return false // NaN never equals anything: treat as non-hashable, handled by scan
		}
		f := v.C
		if f == 0 {
			f = 0 // +0 and -0 are equal keys
		}
		sb.WriteByte('f')
		sb.WriteString(strconv.FormatUint(math.Float64bits(f), 16))
		sb.WriteByte(';')
	case Str:
		if v.Sym != nil {
			return false
		}
		sb.WriteByte('s')
		sb.WriteString(strconv.Itoa(len(v.S)))
		sb.WriteByte(':')
		sb.WriteString(v.S)
	case Ptr:
		fmt.Fprintf(sb, "p%p;", v.P)
	case Struct:
		sb.WriteByte('{')
		for _, f := range v {
			if !hashKey(f, sb) {
				return false
			}
		}
		sb.WriteByte('}')
	case Array:
		sb.WriteByte('[')
		for _, f := range v {
			if !hashKey(f, sb) {
				return false
			}
		}
		sb.WriteByte(']')
	case Iface:
		if v.T == nil {
			sb.WriteString("nil;")
			return true
		}
		sb.WriteByte('<')
		sb.WriteString(typeKey(v.T))
		sb.WriteByte('>')
		return hashKey(v.V, sb)
	case nil:
		sb.WriteString("nil;")
	default:
		return false
	}
	return true
}

var typeKeys = newTypeKeyCache()

type typeKeyCache struct {
	ch chan struct{}
	m  map[types.Type]string
}

func newTypeKeyCache() *typeKeyCache {
	return &typeKeyCache{ch: make(chan struct{}, 1), m: map[types.Type]string{}}
}

func typeKey(t types.Type) string {
	typeKeys.ch <- struct{}{}
	defer func() { <-typeKeys.ch }()
	if s, ok := typeKeys.m[t]; ok {
		return s
	}
	s := types.TypeString(t, nil)
	typeKeys.m[t] = s
	return s
}

func describe(v Value) string {
	switch v := v.(type) {
	case Int:
		if v.Atom != 0 {
			return "atom(" + v.S.String() + ")"
		}
		if v.S != nil {
			return "sym" + strconv.Itoa(v.W)
		}
		return strconv.FormatInt(v.conc(), 10)
	case Str:
		if v.Sym == nil {
			return strconv.Quote(v.S)
		}
		var sb strings.Builder
		sb.WriteString("\"")
		for _, b := range v.Sym {
			switch {
			case b.Atom != 0:
				sb.WriteString("⟨atom⟩")
			case b.S != nil:
				sb.WriteString("?")
			default:
				sb.WriteString(strconv.Quote(string([]byte{byte(b.C)}))[1:])
				sb.WriteString("")
			}
		}
		return strings.ReplaceAll(sb.String(), "\"", "") + "\""
	}
	return fmt.Sprintf("%T", v)
}
