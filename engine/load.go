package main

import (
	"fmt"
	"os"
	"path/filepath"
	"sort"
	"strings"

	"golang.org/x/tools/go/packages"
	"golang.org/x/tools/go/ssa"
	"golang.org/x/tools/go/ssa/ssautil"
)

// repoDir is the tree under verification: /repo, or $VERIF_REPO (used to run the checks against a scratch
// worktree carrying a seeded change without touching /repo).
var repoDir = func() string {
	if d := os.Getenv("VERIF_REPO"); d != "" {
		return d
	}
	return "/repo"
}()
const modPath = "grol.io/grol"

var verifDir = "/verif"

// Loaded is the SSA program of /repo's current working tree plus the overlay harnesses.
type Loaded struct {
	prog    *ssa.Program
	pkgs    map[string]*ssa.Package
	overlay map[string][]byte // virtual path -> content (also used for native replay)
	errs    []string
}

// harnessOverlay maps the files of /verif/harness/<pkg>/*.go to virtual files inside /repo/<pkg>/ and adds
// the generated prelude to every package that has a harness.
func harnessOverlay() (map[string][]byte, error) {
	ov := map[string][]byte{}
	hdir := filepath.Join(verifDir, "harness")
	if d := os.Getenv("VERIF_HARNESS"); d != "" {
		hdir = d // development: a staged copy of the harnesses
	}
	prelude, err := os.ReadFile(filepath.Join(hdir, "prelude.go.txt"))
	if err != nil {
		return nil, err
	}
	ents, err := os.ReadDir(hdir)
	if err != nil {
		return nil, err
	}
	for _, e := range ents {
		if !e.IsDir() {
			continue
		}
		pkg := e.Name()
		files, _ := filepath.Glob(filepath.Join(hdir, pkg, "*.go"))
		if len(files) == 0 {
			continue
		}
		dir := filepath.Join(repoDir, pkg)
		if pkg == "root" {
			dir = repoDir
		}
		if _, err := os.Stat(dir); err != nil {
			continue // package disappeared from the tree: its harnesses cannot be built
		}
		goPkg := pkg
		if pkg == "root" {
			goPkg = "main"
		}
		for _, f := range files {
			b, err := os.ReadFile(f)
			if err != nil {
				return nil, err
			}
			ov[filepath.Join(dir, "zz_verif_"+filepath.Base(f))] = b
		}
		ov[filepath.Join(dir, "zz_verif_prelude.go")] = []byte(strings.Replace(string(prelude), "package PKG", "package "+goPkg, 1))
	}
	// C04 switch: eval/memo.go regenerated from the current source with "if verifCacheOff" guards
	if b, err := os.ReadFile(filepath.Join(repoDir, "eval", "memo.go")); err == nil {
		if m, ok := rewriteMemo(string(b)); ok {
			ov[filepath.Join(repoDir, "eval", "memo.go")] = []byte(m)
		} else {
			memoRewriteFailed = true
		}
	} else {
		memoRewriteFailed = true
	}
	return ov, nil
}

func loadProgram(extra map[string][]byte) (*Loaded, error) {
	ov, err := harnessOverlay()
	if err != nil {
		return nil, err
	}
	for k, v := range extra {
		ov[k] = v
	}
	cfg := &packages.Config{Mode: packages.LoadAllSyntax, Dir: repoDir, Overlay: ov, BuildFlags: []string{"-tags=verif"},
		Env: append(os.Environ(), "GOFLAGS=-mod=mod", "GOPROXY=off")}
	pkgs, err := packages.Load(cfg, modPath+"/...")
	if err != nil {
		return nil, err
	}
	l := &Loaded{overlay: ov, pkgs: map[string]*ssa.Package{}}
	packages.Visit(pkgs, nil, func(p *packages.Package) {
		for _, e := range p.Errors {
			if strings.HasPrefix(p.PkgPath, modPath) {
				l.errs = append(l.errs, e.Error())
			}
		}
	})
	if len(l.errs) > 0 {
		sort.Strings(l.errs)
		return l, fmt.Errorf("%d load errors, first: %s", len(l.errs), l.errs[0])
	}
	prog, _ := ssautil.AllPackages(pkgs, ssa.InstantiateGenerics)
	prog.Build()
	l.prog = prog
	for _, p := range prog.AllPackages() {
		l.pkgs[p.Pkg.Path()] = p
	}
	resolveWellKnown(prog)
	return l, nil
}

func (l *Loaded) pkg(short string) *ssa.Package {
	if short == "root" || short == "" {
		return l.pkgs[modPath]
	}
	return l.pkgs[modPath+"/"+short]
}

var memoRewriteFailed bool

// rewriteMemo inserts the cache-off switch at the top of Cache.Get and Cache.Set (add-only; the variable
// verifCacheOff is declared by the eval harness). ok=false if the two functions are not found.
func rewriteMemo(src string) (string, bool) {
	ins := func(src, sig, guard string) (string, bool) {
		i := strings.Index(src, sig)
		if i < 0 {
			return src, false
		}
		j := strings.Index(src[i:], "{\n")
		if j < 0 {
			return src, false
		}
		p := i + j + 2
		return src[:p] + guard + src[p:], true
	}
	out, ok1 := ins(src, "func (c Cache) Get(", "\tif verifCacheOff {\n\t\treturn nil, nil, false\n\t}\n")
	out, ok2 := ins(out, "func (c Cache) Set(", "\tif verifCacheOff {\n\t\treturn\n\t}\n")
	return out, ok1 && ok2
}
