package main

import (
	"encoding/json"
	"fmt"
	"os"
	"path/filepath"
	"sort"
	"time"
)

type evidence struct {
	PropertyID  string                 `json:"property_id"`
	Tier        string                 `json:"tier"`
	Seed        int64                  `json:"seed"`
	Level       string                 `json:"level"`
	Coverage    map[string]interface{} `json:"coverage"`
	Assumptions []string               `json:"assumptions"`
	WallS       float64                `json:"wall_s"`
	Violations  int                    `json:"violations"`
}

func newEvidence(id, tier string, seed int64) *evidence {
	return &evidence{PropertyID: id, Tier: tier, Seed: seed, Level: "model_checking", Coverage: map[string]interface{}{}}
}

func (e *evidence) inconclusive(reason string) {
	e.Coverage["inconclusive"] = reason
	e.Coverage["explanation"] = "the check could not be built against the current tree and decided nothing: " + reason
}

func (e *evidence) write(wall time.Duration) {
	e.WallS = wall.Seconds()
	os.MkdirAll(outDir("evidence"), 0o755)
	b, _ := json.MarshalIndent(e, "", " ")
	os.WriteFile(filepath.Join(outDir("evidence"), e.PropertyID+".json"), b, 0o644)
}

func (e *evidence) fill(p *PropSpec, r *Runner, results []*JobResult, byLabel map[string]*vioReport, order []string,
	loadT, exploreT, replayT time.Duration, nKnown, nNew, nMismatch int) {
	c := e.Coverage
	paths, completed, notExp, unknownPaths := 0, 0, 0, 0
	var steps, decisions, assertsUnsat, assertsConst int64
	nontrivial := 0
	ends := map[string]int{}
	reaches := map[string]int{}
	notes := map[string]int{}
	inconclusive := 0
	for _, jr := range results {
		paths += jr.Paths
		completed += jr.Completed
		notExp += jr.NotExplored
		steps += jr.Steps
		decisions += jr.Decisions
		nontrivial += jr.NontrivialPaths
		assertsUnsat += jr.AssertsUnsat
		assertsConst += jr.AssertsConst
		unknownPaths += jr.UnknownPaths
		for k, v := range jr.Ends {
			ends[k] += v
			if k != "ok" && k != "go-panic" && k != "infeasible" && k != "assume false" && k != "assume infeasible" && k != "assert fails on every value of this path" {
				inconclusive += v
			}
		}
		for k, v := range jr.Reaches {
			reaches[k] += v
		}
		for k, v := range jr.Notes {
			notes[k] += v
		}
	}
	c["states"] = paths
	c["transitions"] = decisions
	c["evaluations"] = paths
	c["distinct_nontrivial"] = nontrivial
	c["rule"] = "one evaluation = one execution path of a harness through the real code, identified by its decision vector (paths are distinct by construction of the depth-first search; duplicates are detected by hashing the vector and reported under notes.duplicate-path); non-trivial = the path took at least one decision on a symbolic value, so its verdict covers a set of inputs decided by the solver, not a single input"
	c["jobs"] = len(results)
	c["paths_completed"] = completed
	c["paths_not_explored_budget"] = notExp
	c["inconclusive_paths"] = inconclusive
	c["paths_with_unknown_queries"] = unknownPaths
	c["ssa_steps"] = steps
	c["queries"] = r.Queries
	c["queries_one_shot_fp"] = r.OneShot
	c["queries_unknown"] = r.SolverUnknown
	c["solver_errors"] = r.SolverErrors
	c["solver_s"] = r.SolverTime.Seconds()
	c["solver_max_query_s"] = r.MaxQuery.Seconds()
	c["solver"] = "z3 4.8.12 (-in, SMT-LIB2, bit-vectors + IEEE floating point; FP queries one-shot)"
	c["unsat_assertions"] = assertsUnsat
	c["constant_true_assertions"] = assertsConst
	c["path_ends"] = ends
	c["reach_labels"] = reaches
	c["notes"] = notes
	c["load_s"] = loadT.Seconds()
	c["explore_s"] = exploreT.Seconds()
	c["replay_s"] = replayT.Seconds()
	c["bounds"] = p.Bounds
	c["outside_claim"] = p.Outside
	var missing []string
	for _, l := range p.Reach {
		if reaches[l] == 0 {
			missing = append(missing, l)
		}
	}
	c["vacuity_labels_required"] = p.Reach
	c["vacuity_labels_missing"] = missing
	if len(missing) > 0 {
		fmt.Printf("VACUOUS property=%s labels never reached: %v (the run is inconclusive for what they guard)\n", p.ID, missing)
	}
	// functions encoded
	type fe struct {
		Name   string `json:"name"`
		Instrs int    `json:"ssa_instructions"`
	}
	var grolFns []fe
	other := 0
	for _, k := range sortedKeys(r.Funcs) {
		if len(k) > 0 && (containsGrol(k)) {
			grolFns = append(grolFns, fe{k, r.Funcs[k]})
		} else {
			other++
		}
	}
	c["functions_encoded"] = grolFns
	c["library_functions_executed_from_ssa"] = other
	c["stubs_hit"] = sortedKeys(r.Stubs)
	// samples
	var samples []interface{}
	for i, jr := range results {
		if i >= 6 && len(jr.Vio) == 0 {
			continue
		}
		s := map[string]interface{}{"harness": jr.Job.ID(), "paths": jr.Paths, "completed": jr.Completed, "decisions": jr.Decisions}
		if len(jr.Vio) > 0 {
			s["violated_labels"] = sortedKeys(jr.Vio)
		}
		samples = append(samples, s)
		if len(samples) >= 12 {
			break
		}
	}
	for _, k := range order {
		rp := byLabel[k]
		m := map[string]interface{}{}
		for i, n := range rp.agg.First.Nondet {
			m[fmt.Sprintf("%02d_%s", i, n.Tag)] = fmt.Sprintf("%#x", rp.agg.First.Values[i])
		}
		samples = append(samples, map[string]interface{}{"counterexample_for": k, "harness": rp.agg.Job.ID(), "model": m,
			"native_result": rp.native, "reproduced": rp.reproduced, "known_finding": rp.known != nil})
		if len(samples) >= 40 {
			break
		}
	}
	if len(samples) == 0 {
		samples = append(samples, "no jobs")
	}
	c["samples"] = samples
	nReplayed := 0
	for _, k := range order {
		if byLabel[k].native != "" {
			nReplayed++
		}
	}
	c["traces_validated_against_impl"] = nReplayed
	c["counterexamples_found"] = len(order)
	c["known_findings_matched"] = nKnown
	c["engine_mismatch"] = nMismatch
	c["engine_errors"] = len(r.EngineErrors)
	e.Violations = nNew
	as := append([]string{}, p.Assumptions...)
	as = append(as, "Go standard library and runtime behave as specified; library code is executed from its own SSA or through the listed stubs",
		"z3's sat/unsat answers are correct (a sample of this run's queries is re-decided by z3 5.x and cvc5, see coverage.solver_crosscheck)",
		"the SSA executor implements Go semantics faithfully (validated by conformance runs of the repository's own test inputs and by native replay of every counterexample)")
	sort.Strings(as)
	e.Assumptions = as
}

func containsGrol(s string) bool {
	for i := 0; i+len(modPath) <= len(s); i++ {
		if s[i:i+len(modPath)] == modPath {
			return true
		}
	}
	return false
}

var _ = json.Marshal
