package main

import (
	"strconv"
	"strings"
	"time"
)

// one open prefix per parse function and position (DESIGN Appendix A)
var c08Contexts = []string{
	"if x {", "if x {1} else", "if x {1} else {", "if ", "func", "func f(", "func f(a,", "func f(a) {", "(a,", "(a, b) =>", "x =>", "x => {",
	"for", "for i =", "for i = 3 {", "{", "{1:", "{1:2,", "[", "[1,", "a[", "a[1:", "a.", "f(", "f(1,", "macro(", "macro(x) {",
	"len(", "print(1,", "/*", "\"", "`", "return", "return ", "a +", "-", "a = ", "a := ", "a++", "!", "quote(", "//", "1.", "0x", "a; ",
}

func init() {
	register(&PropSpec{
		ID: "C08",
		Jobs: func(tier string, seed int64) []Job {
			var jobs []Job
			j := func(t, mode string) {
				jobs = append(jobs, Job{Prop: "C08", Pkg: "parser", Func: "VerifTotal", Args: []string{t, mode}, MaxSteps: 3_000_000, HangLabel: "total/does-not-terminate"})
			}
			maxWhole, maxCtx := 2, 2
			if tier == "thorough" {
				maxWhole, maxCtx = 3, 3
			}
			for _, mode := range []string{"file", "line"} {
				for n := 0; n <= maxWhole; n++ {
					j(strings.Repeat("@", n), mode)
				}
				for _, c := range c08Contexts {
					for n := 1; n <= maxCtx; n++ {
						j(c+strings.Repeat("@", n), mode)
						if n == 1 {
							j(c+" @", mode)
							j(c+"@ 1", mode)
						}
					}
				}
				// arbitrary bytes in the middle of a construct (what follows them is fixed)
				for _, t := range []string{"(a,@)=>1", "(@,b)=>1", "(a,@@)=>1", "(a@@)=>1", "(@@)=>1", "f((a,@)=>a)", "x = (a,@) => a", "func(a,@){}", "func f(@){}", "func f(a@){}", "macro(@){}", "macro(a,@){1}",
					"{a:@}", "{@:1}", "{a:1,@}", "[a,@]", "[@,a]", "f(a,@)", "f(@)", "a[@]", "a[1:@]", "a[@:2]", "a[b=@]", "a[b=1@]", "a[b||1@]", "a[[1@]]", "x[a:=1@]", "if @ {1}", "for @ {1}", "for i=@ {1}", "for i=1@2 {1}",
					"if a {1} else @", "if a {1} @ {2}", "(@)", "-(@)", "a.@", "a.(@)", "a @ b", "a @@ b", "x = @", "x @ 1", "return @", "quote(@)", "unquote(@)", "len(@)", "print(@,1)", "a++@", "@++", "..@", "a => @", "a => {@}", "=> @", ") => @"} {
					j(t, mode)
				}
				// long lines: error messages quote the line around the error
				long := strings.Repeat("a", 201)
				for _, t := range []string{"@\n" + long, ")\n" + long + "@", "f(@\n" + long + " " + long, long + " @ " + long, "x = [1,\n" + long + "@", "/* " + long + "\n" + long + " */ @", "`" + long + "\n" + long + "` @"} {
					j(t, mode)
				}
				// windows over a few seed programs: one arbitrary byte at every position
				for _, seedProg := range []string{`func f(a,b){if a<b {return a}; b}`, `m={"k":[1,2.5,"s"]}; m.k[0:1]`, `for i=3 {println(i) /* c */}` + "\n// end"} {
					for pos := 0; pos < len(seedProg); pos++ {
						if tier != "thorough" && pos%2 == 1 {
							continue
						}
						j(seedProg[:pos]+"@"+seedProg[pos+1:], mode)
					}
				}
			}
			return jobs
		},
		HangLabels: []string{"total/does-not-terminate"},
		Budget:     map[string]time.Duration{"quick": 8 * time.Minute, "thorough": 60 * time.Minute},
		Reach:      []string{"errors reported", "continuation requested", "tree returned"},
		Bounds: map[string]interface{}{"whole_input": "every byte string of length 0..2 (3 thorough), all 256 values per byte, file and line mode",
			"contexts": "45 open prefixes (one per parse function and position) followed by 1..2 arbitrary bytes (3 thorough), also with a space before the byte and a token after it",
			"long_lines": "7 skeletons with lines of 200-400 bytes around one arbitrary byte (error messages quote the line)", "mid_construct": "50 skeletons with 1-2 arbitrary bytes in the middle of a construct (parameter lists, map / array / call / index contents, conditions, after else, operands)", "windows":  "one arbitrary byte substituted at every other position (every position thorough) of 3 seed programs"},
		Outside: []string{"inputs needing more arbitrary bytes than stated beyond a listed context", "termination is shown per path: a path that needs more than 3 million SSA steps is reported as a non-termination candidate and counts when the native run of the same input does not finish within 20 s"},
	})
}

var rtInfix = []string{"+", "-", "*", "/", "%", "<", ">", "<=", ">=", "==", "!=", "&&", "||", "&", "|", "^", "<<", ">>", ":", "=", ":="}
var rtPrefix = []string{"-", "!", "~", "^", "+", "++", "--"}

// c02Family maps a skeleton to the discriminator its violations are reported under (default: the skeleton).
var c02Family = map[string]string{}

func c02Templates(tier string) []string {
	var ts []string
	add := func(s ...string) { ts = append(ts, s...) }
	for _, o1 := range rtInfix {
		for _, o2 := range rtInfix {
			add("a "+o1+" b "+o2+" c", "(a "+o1+" b) "+o2+" c", "a "+o1+" (b "+o2+" c)",
				"f(a "+o1+" b) "+o2+" c", "[a "+o1+" b, c "+o2+" d]")
			if tier == "thorough" {
				add("a "+o1+" (b "+o2+" c) "+o1+" d", "(a "+o1+" b "+o2+" c)", "if a "+o1+" b {c "+o2+" d}")
				if o1 == o2 {
					// same class (and same known-finding key) as a op (b op c): parentheses of a same-operator right operand
					c02Family["a "+o1+" (b "+o2+" c) "+o1+" d"] = "a " + o1 + " (b " + o2 + " c)"
				}
			}
		}
		for _, p := range rtPrefix {
			add(p+"a "+o1+" b", p+"(a "+o1+" b)", "("+p+"a) "+o1+" b", "a "+o1+" "+p+"b", "a "+o1+" ("+p+"b)", "a "+o1+p+"b")
		}
		add("(a "+o1+" b)[c]", "(a "+o1+" b).k", "a[b "+o1+" c]", "a "+o1+" b[c:]", "a "+o1+" b[c:d]", "(a "+o1+" b)(c)", "a "+o1+" f(b)", "a "+o1+" b.c",
			"x => x "+o1+" 1", "(x => x "+o1+" 1)(3)", "a "+o1+" (x => x)", "a++ "+o1+" b", "a "+o1+" b++", "{a "+o1+" b: c}", "{a: b "+o1+" c}",
			"a "+o1+" b; "+"c "+o1+" d", "a "+o1+" b\n-c", "return a "+o1+" b", "len(a "+o1+" b)", "func(){a "+o1+" b}", "a "+o1+" func(){b}()", "a "+o1+" if b {c} else {d}", "a "+o1+" [b]", "a "+o1+" {b:c}",
			"{(a "+o1+" b): c}", "{a: (b "+o1+" c)}", "{(a "+o1+" b): (c "+o1+" d), e: f}", "{a: b, (c "+o1+" d): e}", "[(a "+o1+" b)]", "f((a "+o1+" b), c)", "a[(b "+o1+" c)]", "a.(b "+o1+" c)")
	}
	// quoted dot keys that spell a keyword or a builtin
	for _, kw := range []string{"func", "true", "false", "if", "else", "return", "for", "break", "continue", "macro", "quote", "unquote", "len", "first", "rest", "print", "println", "log", "error", "catch", "del", "nil", "k", "k1", "_k", "1k", "a b", ""} {
		add("m.\""+kw+"\"", "m.\""+kw+"\" = 1", "x = m.\""+kw+"\"(1)", "m.\""+kw+"\" + m.\""+kw+"\"")
	}
	// comments where an operand is expected
	add("f(// c\n)", "x = [1, // c\n]", "if // c\n{ }", "for // c\n{ }", "a. // c", "!(! // c\n)", "func f(){return // c\n}", "if x { a = // c\n1 }", "if x { a + // c\n1 }", "(a = // c\n) * 2",
		"f(/* c */)", "[/* c */]", "-/* c */a", "return /* c */ a", "a = /* c */ 1", "a + /* c */", "f(a, /* c */)", "{1: /* c */}", "x => // c\n", "x => /* c */ x", "a[// c\n]", "a[/* c */ 1]", "if a { // c\n} else { /* d */ }")
	// a dot or a number next to a dot or a number
	add("1. 5", "1 .5", "1; ..", "1; .5", "a. 5", "a. .5", "a. ..", "a.(b.c)", "a.(b(1))", "a.(b[1])", "a.(1+2)", "a.(-1)", "a.b.(c)", "1.5.a", "(1).a", "(1.).a", "a.1.2", "..; 1", ".5; .5", "1; 1", "1.; .1", "a.b; .5", "(08).a", "(9223372036854775808).a", "(1e3).a", "(1.5).a", "(0x1f).a", "(.5).a", "(1_0).a", "(00).a", "(09.5).a", "f((99999999999999999999).k, 1)", "a. ..++", "(1). ..--", "a. ..++\nb", "a.b++", "a.b--\n-c")
	for _, p := range rtPrefix {
		for _, q := range rtPrefix {
			add(p+q+"a", p+"("+q+"a)", p+" "+q+"a")
		}
		add(p+"a[b]", p+"a.b", p+"f(a)", "("+p+"a)[b]", p+"a++", p+"[a]", p+"{a:b}", p+"(x=>x)", "a; "+p+"b", "a\n"+p+"b", "f("+p+"a)", "["+p+"a, "+p+"b]")
	}
	add(
		// statement kinds
		"a", "a = 1", "a := 1", "return", "return a", "if a {b}", "if a {b} else {c}", "if a {b} else if c {d} else {e}", "if (a) {b}",
		"for a {b}", "for 3 {b}", "for i = 3 {b}", "for i = 1:3 {b}", "for v = [1,2] {b}", "for {b}", "for i := 3 {break; continue}",
		"func f(a,b) {a+b}", "func f() {}", "func(a) {a}", "func f(a,..) {..}", "f = func(a) {a}", "func f(a) {return a}",
		"a => a", "(a,b) => a+b", "() => 1", "a => {a; b}", "(a) => {a}", "a => b => a+b", "(a => a)(1)", "(() => 1)()", "f = a => a*2", "x = (a,b) => {a}", "(a, ..) => ..",
		"macro(a) {quote(unquote(a))}", "m = macro(a,b) {quote(unquote(a) + unquote(b))}", "quote(a+b)", "unquote(a)",
		"[1, 2, 3]", "[]", "[[1], [2]]", "{}", "{1:2}", "{\"a\":1, \"b\":[1,2]}", "{a:b, c:d}", "a[1]", "a[1][2]", "a[-1]", "a[1:2]", "a[1:]", "a[:2]", "a[b:]", "a[:]",
		"a.b", "a.b.c", "a.b[1]", "a[1].b", "a.b(1)", "f(1)", "f()", "f(1,2)", "f(a)(b)", "f(g(a))", "len(a)", "first(a)", "rest(a)", "print(a,b)", "println()", "log(a)", "error(\"x\")", "catch(a)", "del(a.b)", "del(a[1])",
		"a++", "a--", "++a", "--a", "a++ + b", "a + b++", "-a", "- a", "!a", "!!a", "-(-a)", "- -a", "-(a)", "(-a)", "a - -b", "a - (-b)", "a + +b", "a - --b", "a-- - b", "a-(-b)", "a--b",
		"true", "false", "nil", "1", "1.5", "0x1F", "0b101", "1e3", "1_000", ".5", "1.", "\"s\"", "`raw`", "\"a\\nb\"", "\"q\\\"q\"", "`a\"b`", "\"\"", "``",
		"a;b", "a;b;", "a\nb", "a;\nb", "a ; b", "{a:1}\n[b]", "a\n[b]", "a [b]", "a\n(b)", "a (b)", "f\n(1)", "a;-b", "a\n-b", "a;+b", "a;!b", "a;[b]", "a;(b)", "a;{b:c}", "1;-2", "a;--b", "a++;b", "a;++b", "a++\n++b",
		"// c\na", "a // c", "a // c\nb", "/* c */ a", "a /* c */", "a /* c */ b", "a + /* c */ b", "if a { // c\nb}", "if a {b // c\n}", "func f() { /* c */ }", "[1, /* c */ 2]", "a\n// c1\n// c2\nb", "// only", "/* only */", "a /* c1 */ /* c2 */ b", "f(a, // c\nb)", "{a:1, // c\nb:2}",
		"if a {b}; c", "if a {b}\nc", "for a {b}; c", "func f() {a}; f()", "func f() {a}\nf()", "a = if b {c} else {d}", "a = func() {b}", "f(func() {a})", "f(a => a)", "f(a => a, b)", "f((a,b) => a)", "[a => a]", "{a: b => b}", "a = b = c", "a = b == c", "a == b = c", "a = b => c", "a => b = c",
		"-a.b", "-a[0]", "-f(a)", "!a.b", "a.b++", "a[0]++", "a . b", "a. b", "a .b", "a.\"k\"", "a.1", "1.a", "a.b.1",
		"a && b || c", "a || b && c", "(a || b) && c", "a == b == c", "a < b < c", "a : b : c", "a:b", "(a:b)", "[a:b]", "x[a:b]", "x[(a:b)]", "x[a:b:c]",
	)
	// operand forms on either side of a lower-precedence parenthesised operand
	lefts := []string{"f(a)", "f()", "a[i]", "a.k", "len(a)", "a++", "-a", "!a", "\"s\"", "[a]", "{a:b}", "(x=>x)(1)", "a[1:2]", "1", "1.5", "true", "func(){a}()", "a.b.c", "f(a)(b)", "a[i][j]"}
	for _, l := range lefts {
		for _, pair := range [][2]string{{"*", "+"}, {"-", "||"}, {"/", "-"}, {"+", "=="}, {"&&", "||"}, {"<", "+"}, {"-", "-"}, {"%", "<<"}} {
			add(l+" "+pair[0]+" (b "+pair[1]+" c)", "(b "+pair[1]+" c) "+pair[0]+" "+l, l+" "+pair[0]+" b "+pair[1]+" c")
		}
	}
	// every kind of statement followed by every kind of statement (separators in both modes)
	prevs := []string{"a", "a++", "f(a)", "a[0]", "\"s\"", "1", "x = 1", "{a:b}", "[a]", "a.b", "func(){}", "f = x => x", "-a", "a + b", "if a {b}", "for a {b}", "return a", "len(a)", "a--", "x := [1]", "1.5", "true", "return", "break", "continue", "x = a--", "-a--", "a++"}
	nexts := []string{"[b][0]", "[b] + [c]", "[b]", "(b) + c", "(b)", "-b", "+b", "!b", "++b", "--b", "^b", "~b", "{b:c}", "{b:c}[b]", "\"t\"", "b", "1", ".5", "f(b)", "if b {c}", "for b {c}", "func(){b}", "func g(){b}", "x => x", "(x, y) => x", "b++", "b = 1", "return", "len(b)", "[b][0] = 1"}
	for _, pv := range prevs {
		for _, nx := range nexts {
			add(pv+"; "+nx, pv+"\n"+nx)
			c02Family[pv+"; "+nx] = "statement pair: <expression statement> then " + nx
			c02Family[pv+"\n"+nx] = "statement pair: <expression statement> then " + nx
		}
	}
	// comments at the edges of every kind of block, with and without a following statement
	blocks := []string{"if a {%}", "if a {b} else {%}", "for a {%}", "func f() {%}", "g = func() {%}", "h = () => {%}", "if a {%} else {b}", "m = macro(x) {%}"}
	bodies := []string{"c /* k */", "/* k */", "c // k\n", "c /* k */\n", "\nc /* k */ ", "/* k */ c", "\n/* k */\nc\n", "c\n/* k */", "c\n// k\n", "// k\nc", "c /* k */ /* l */", "if c {d} /* k */", "/* k */ if c {d}", "if c {d}\n// k\n", "for c {d} /* k */", "return /* k */", "return c // k\n"}
	tails := []string{"", "\nd", "; d", "\n/* t */\nd", " /* t */\nd", " // t\nd"}
	for _, bl := range blocks {
		for _, bd := range bodies {
			for _, tl := range tails {
				t := strings.Replace(bl, "%", bd, 1) + tl
				add(t)
				c02Family[t] = "comment at a block edge: " + bl + " body " + strconv.Quote(bd)
			}
		}
	}
	// comments between two statements, on the previous line, on their own line, on the next one
	for _, pv := range []string{"a", "x = 1", "f(a)", "if a {b}", "a++", "[a]"} {
		for _, cm := range []string{" /* k */\n", "\n/* k */\n", "\n/* k */ ", " // k\n", "\n// k\n", " /* k */ ", "\n\n/* k */\n\n", " /* k */ /* l */\n", "\n// k\n// l\n"} {
			for _, nx := range []string{"b", "-b", "[b]", "(b)", "if b {c}", "y = 2"} {
				t := pv + cm + nx
				add(t)
				c02Family[t] = "comment between statements: " + strconv.Quote(cm) + " then " + nx
			}
		}
	}
	// symbolic bytes: literal contents, identifier/number bytes, spacing and separators
	add("s = \"@\"", "s = \"@@\"", "s = \"a@b\"", "s = \"\\@\"", "s = `@`", "s = `@@`", "// @\na", "// @@\na", "a // @", "/* @ */ a", "/* @@ */ a", "a /* @ */ b",
		"a@ = 1", "a@@", "x = 1@", "x = 1@@", "x = @.@", "x = 1e@", "x = 0x@", "a@(b)", "a@[1]", "a@b", "a@-b", "a;@b", "a @ b", "a @@ b", "a@@b", "{a@1}", "f(a@b)", "[a@b]", "a@@ b", "a @@b", "@a", "@@a", "a@", "a@@",
		"if a {b}@c", "if a {b}@else {c}", "f@(1)", "a@.b", "a.@b", "a[1@2]", "a[1@]", "a[@1]", "-@a", "a -@ b", "a+@+b", "a++@b", "a@++", "1@2", "1@.5", "\"a\"@\"b\"", "a@\"b\"", "a@`b`", "a /*c*/@b", "a //c\n@b")
	return ts
}

// c03Histories: {input, input parsed and printed earlier by the same process}; '@' = arbitrary byte
var c03Histories = [][2]string{
	{"b = 1@", "a = 0x1@"}, {"b = 2@", "a = 0x1@"}, {"a = 0x1@", "b = 1@"}, {"a = 0x1@", "b = 2@"}, {"b = @@", "a = 0x1F"}, {"a = 0x@@", "b = 31"},
	{"b = @", "a = 0b1@"}, {"a = 0b1@", "b = @"}, {"b = 1@", "a = 1_@"}, {"b = @", "a = 0@"}, {"b = 0@", "a = @"}, {"a = 1@", "b = 1@"},
	{"x = \"@\"", "y = \"@\""}, {"x = `@`", "y = \"@\""}, {"a@ = 1", "a@ = 2"}, {"a @ b", "c @ d"}, {"a @@ b", "c == d"}, {"a = @.5", "b = @.5"}, {"a = 1.@", "b = 1.@0"}, {"a = @e1", "b = @0.0"},
	{"f(@)", "/* c */ @"}, {"// @\na", "// k\nb"}, {"/* @ */ a", "b /* k */"}, {"// k\na", "// @\nb"}, {"[@, 1]", "[1, @]"}, {"{@: 1}", "{1: @}"}, {"a@b", "a @ b"},
	{"if a {b}", "if a {b} else {c}"}, {"func f() {a}", "func f() {b}"}, {"a = 1\nb = 2", "b = 2\na = 1"},
}

func init() {
	mk := func(id string) *PropSpec {
		return &PropSpec{
			ID: id,
			Jobs: func(tier string, seed int64) []Job {
				var jobs []Job
				for _, t := range c02Templates(tier) {
					for _, mode := range []string{"normal", "compact"} {
						what := "roundtrip"
						if id == "C03" {
							what = "fixpoint"
						}
						jobs = append(jobs, Job{Prop: id, Pkg: "parser", Func: "VerifRoundTrip", Args: []string{t, mode, what, c02Family[t]}})
					}
				}
				// string contents go through strconv.Quote and back through the lexer: with the printed form of a symbolic
				// string kept opaque (atoms) those paths are inconclusive, so a few skeletons run with Quote executed byte by byte
				for _, t := range []string{"s = \"@\"", "a.\"@\"", "a.\"@@\"", "a.\"@@\" = 1", "x = m.\"@@@\"(1)", "[\"@\", \"@\"]", "{\"@\": \"@\"}"} {
					if tier != "thorough" && strings.Count(t, "@") > 1 {
						continue
					}
					for _, mode := range []string{"normal", "compact"} {
						what := "roundtrip"
						if id == "C03" {
							what = "fixpoint"
						}
						jobs = append(jobs, Job{Prop: id, Pkg: "parser", Func: "VerifRoundTrip", Args: []string{t, mode, what, ""}, NoAtoms: true, MaxDec: 3000})
					}
				}
				if id == "C03" {
					for _, h := range c03Histories {
						for _, mode := range []string{"normal", "compact"} {
							jobs = append(jobs, Job{Prop: id, Pkg: "parser", Func: "VerifFormatHistory", Args: []string{h[0], h[1], mode}, MaxDec: 400})
						}
					}
				}
				return jobs
			},
			Budget: map[string]time.Duration{"quick": 8 * time.Minute, "thorough": 60 * time.Minute},
			Reach:  []string{"input parses"},
			Bounds: map[string]interface{}{"skeletons": "20 operand forms (call, index, dot, builtin, postfix, prefix, literals, lambda call...) on either side of a parenthesised lower-precedence operand for 8 operator pairs; 28 kinds of statement followed by 30 kinds of statement with ; and newline separators; every ordered pair of 21 infix operators in 5 parent/child shapes (left, right, parenthesised either side, under a call, in a list); every prefix x infix combination in 6 shapes; every infix operator against index, dot, slice, call, lambda, postfix, map, statement boundary, builtin, function, if-expression; prefix pairs; ~250 statement-kind, literal, spacing, separator and comment-position skeletons",
				"symbolic_bytes": "55 skeletons with 1-2 arbitrary bytes ('@'): string / raw string / comment contents, identifier and number bytes, the byte before ( [ - and between statements, operator positions - all 256 values per byte",
				"modes":          "normal and compact"},
			Outside: []string{"nesting deeper than the skeletons (the property's 'arbitrary nesting' is not reached by this technique)", "interactions needing three or more specific constructs in a row"},
		}
	}
	register(mk("C02"))
	register(mk("C03"))
}
