package main

import (
	"fmt"
	"math"
	"strings"
)

// Op is a term constructor.
type Op uint8

const (
	OpConst Op = iota // bit-vector or Bool constant (W==0: Bool)
	OpVar
	OpFConst // float64 constant, K = IEEE bits
	OpBvAdd
	OpBvSub
	OpBvMul
	OpBvAnd
	OpBvOr
	OpBvXor
	OpBvShl
	OpBvLshr
	OpBvAshr
	OpBvUdiv
	OpBvUrem
	OpBvSdiv
	OpBvSrem
	OpBvNot
	OpBvNeg
	OpExtract
	OpZext
	OpSext
	OpConcat
	OpEq // bit-vector or Bool equality
	OpUlt
	OpUle
	OpSlt
	OpSle
	OpNot
	OpAnd
	OpOr
	OpIte
	OpFAdd
	OpFSub
	OpFMul
	OpFDiv
	OpFNeg
	OpFEq
	OpFLt
	OpFLe
	OpFIsNaN
	OpFFromBits // BitVec64 -> Float64 (reinterpretation)
	OpFFromSInt // signed BitVec -> Float64 RNE
	OpFFromUInt // unsigned BitVec -> Float64 RNE
	OpFToSInt   // Float64 -> signed BitVec W (RTZ); meaning unspecified when out of range
	OpFToBitsEq // Bool: (= ((_ to_fp 11 53) bv) f): bits bv encode float f
	OpUF        // uninterpreted function Name over Args, result width W (FPW for float)
	OpAtomEq    // unused placeholder
	OpFAbs
	OpFSqrt
	OpFToF32 // round to float32 and back (models float32 conversion)
	OpFSame  // Bool: SMT equality on the FP sort (NaN = NaN, +0 != -0): "prints alike"
)

var opSMT = map[Op]string{
	OpBvAdd: "bvadd", OpBvSub: "bvsub", OpBvMul: "bvmul", OpBvAnd: "bvand", OpBvOr: "bvor", OpBvXor: "bvxor",
	OpBvShl: "bvshl", OpBvLshr: "bvlshr", OpBvAshr: "bvashr", OpBvUdiv: "bvudiv", OpBvUrem: "bvurem",
	OpBvSdiv: "bvsdiv", OpBvSrem: "bvsrem", OpBvNot: "bvnot", OpBvNeg: "bvneg", OpConcat: "concat",
	OpEq: "=", OpUlt: "bvult", OpUle: "bvule", OpSlt: "bvslt", OpSle: "bvsle", OpNot: "not", OpAnd: "and", OpOr: "or",
	OpIte: "ite", OpFNeg: "fp.neg", OpFEq: "fp.eq", OpFLt: "fp.lt", OpFLe: "fp.leq", OpFIsNaN: "fp.isNaN", OpFAbs: "fp.abs",
}

// FPW is the marker width of the Float64 sort.
const FPW = 1064

// Term is a hash-consed SMT term. W==0: Bool; W==FPW: Float64; otherwise bit-vector of W bits (W<=64).
type Term struct {
	Op     Op
	W      int
	Args   []*Term
	K      uint64
	Name   string
	P1, P2 int
	id     int32
	fp     int8 // 0 unknown, 1 no FP inside, 2 has FP
}

type termKey struct {
	op         Op
	w          int32
	k          uint64
	p1, p2     int32
	a0, a1, a2 int32
	name       string
}

type TermTable struct {
	m    map[termKey]*Term
	next int32
	tru  *Term
	fls  *Term
}

func NewTermTable() *TermTable {
	tt := &TermTable{m: map[termKey]*Term{}}
	tt.fls = tt.intern(&Term{Op: OpConst, W: 0, K: 0})
	tt.tru = tt.intern(&Term{Op: OpConst, W: 0, K: 1})
	return tt
}

func mask(w int) uint64 {
	if w >= 64 {
		return ^uint64(0)
	}
	return (uint64(1) << uint(w)) - 1
}

func (tt *TermTable) intern(t *Term) *Term {
	k := termKey{op: t.Op, w: int32(t.W), k: t.K, p1: int32(t.P1), p2: int32(t.P2), name: t.Name}
	switch len(t.Args) {
	case 3:
		k.a2 = t.Args[2].id
		fallthrough
	case 2:
		k.a1 = t.Args[1].id
		fallthrough
	case 1:
		k.a0 = t.Args[0].id
	case 0:
	default:
		// UF with many args: fold ids into the name
		var sb strings.Builder
		sb.WriteString(t.Name)
		for _, a := range t.Args {
			fmt.Fprintf(&sb, ",%d", a.id)
		}
		k.name = sb.String()
	}
	if old, ok := tt.m[k]; ok {
		return old
	}
	tt.next++
	t.id = tt.next
	tt.m[k] = t
	return t
}

func (tt *TermTable) Const(w int, v uint64) *Term {
	return tt.intern(&Term{Op: OpConst, W: w, K: v & mask(w)})
}
func (tt *TermTable) BoolConst(b bool) *Term {
	if b {
		return tt.tru
	}
	return tt.fls
}
func (tt *TermTable) Var(name string, w int) *Term {
	return tt.intern(&Term{Op: OpVar, W: w, Name: name})
}
func (tt *TermTable) FConst(f float64) *Term {
	return tt.intern(&Term{Op: OpFConst, W: FPW, K: math.Float64bits(f)})
}
func (tt *TermTable) FConstBits(b uint64) *Term {
	return tt.intern(&Term{Op: OpFConst, W: FPW, K: b})
}

func (t *Term) IsConst() bool  { return t.Op == OpConst }
func (t *Term) IsFConst() bool { return t.Op == OpFConst }
func (t *Term) IsTrue() bool   { return t.Op == OpConst && t.W == 0 && t.K == 1 }
func (t *Term) IsFalse() bool  { return t.Op == OpConst && t.W == 0 && t.K == 0 }

func sext64(v uint64, w int) int64 {
	if w >= 64 {
		return int64(v)
	}
	sh := uint(64 - w)
	return int64(v<<sh) >> sh
}

// foldBin computes a bit-vector binary operation on constants (SMT-LIB semantics for division by zero).
func foldBin(op Op, w int, x, y uint64) uint64 {
	var r uint64
	switch op {
	case OpBvAdd:
		r = x + y
	case OpBvSub:
		r = x - y
	case OpBvMul:
		r = x * y
	case OpBvAnd:
		r = x & y
	case OpBvOr:
		r = x | y
	case OpBvXor:
		r = x ^ y
	case OpBvShl:
		if y >= uint64(w) {
			r = 0
		} else {
			r = x << y
		}
	case OpBvLshr:
		if y >= uint64(w) {
			r = 0
		} else {
			r = x >> y
		}
	case OpBvAshr:
		sx := sext64(x, w)
		if y >= uint64(w) {
			if sx < 0 {
				r = ^uint64(0)
			} else {
				r = 0
			}
		} else {
			r = uint64(sx >> y)
		}
	case OpBvUdiv:
		if y == 0 {
			r = ^uint64(0)
		} else {
			r = x / y
		}
	case OpBvUrem:
		if y == 0 {
			r = x
		} else {
			r = x % y
		}
	case OpBvSdiv:
		sx, sy := sext64(x, w), sext64(y, w)
		switch {
		case sy == 0:
			if sx >= 0 {
				r = ^uint64(0)
			} else {
				r = 1
			}
		case sy == -1:
			r = uint64(-sx)
		default:
			r = uint64(sx / sy)
		}
	case OpBvSrem:
		sx, sy := sext64(x, w), sext64(y, w)
		switch {
		case sy == 0:
			r = x
		case sy == -1:
			r = 0
		default:
			r = uint64(sx % sy)
		}
	default:
		panic("foldBin: bad op")
	}
	return r & mask(w)
}

// Bin builds a bit-vector binary operation with constant folding.
func (tt *TermTable) Bin(op Op, a, b *Term) *Term {
	w := a.W
	if a.W != b.W {
		panic(fmt.Sprintf("Bin %s: width mismatch %d vs %d", opSMT[op], a.W, b.W))
	}
	if a.IsConst() && b.IsConst() {
		return tt.Const(w, foldBin(op, w, a.K, b.K))
	}
	if op == OpBvAdd && a.IsConst() && !b.IsConst() {
		a, b = b, a
	}
	if op == OpBvSub && b.IsConst() {
		// x - c  ==  x + (-c): one normal form for offset chains
		return tt.Bin(OpBvAdd, a, tt.Const(w, -b.K))
	}
	if op == OpBvAdd && b.IsConst() && a.Op == OpBvAdd && a.Args[1].IsConst() {
		return tt.Bin(OpBvAdd, a.Args[0], tt.Const(w, a.Args[1].K+b.K))
	}
	switch op {
	case OpBvAdd, OpBvOr, OpBvXor:
		if b.IsConst() && b.K == 0 {
			return a
		}
		if a.IsConst() && a.K == 0 {
			return b
		}
	case OpBvSub, OpBvShl, OpBvLshr, OpBvAshr:
		if b.IsConst() && b.K == 0 {
			return a
		}
	case OpBvMul:
		if b.IsConst() && b.K == 1 {
			return a
		}
		if a.IsConst() && a.K == 1 {
			return b
		}
		if (b.IsConst() && b.K == 0) || (a.IsConst() && a.K == 0) {
			return tt.Const(w, 0)
		}
	case OpBvAnd:
		if (b.IsConst() && b.K == 0) || (a.IsConst() && a.K == 0) {
			return tt.Const(w, 0)
		}
		if b.IsConst() && b.K == mask(w) {
			return a
		}
		if a.IsConst() && a.K == mask(w) {
			return b
		}
	}
	return tt.intern(&Term{Op: op, W: w, Args: []*Term{a, b}})
}

func foldCmp(op Op, w int, x, y uint64) bool {
	sx, sy := sext64(x, w), sext64(y, w)
	switch op {
	case OpEq:
		return x == y
	case OpUlt:
		return x < y
	case OpUle:
		return x <= y
	case OpSlt:
		return sx < sy
	case OpSle:
		return sx <= sy
	}
	panic("foldCmp")
}

// Cmp builds a comparison (OpEq, OpUlt, OpUle, OpSlt, OpSle) of two bit-vectors.
func (tt *TermTable) Cmp(op Op, a, b *Term) *Term {
	if a.W != b.W {
		panic(fmt.Sprintf("Cmp %s: width mismatch %d vs %d", opSMT[op], a.W, b.W))
	}
	if a.W == 0 {
		if op != OpEq {
			panic("Cmp on Bool")
		}
		return tt.BoolEq(a, b)
	}
	if a.IsConst() && b.IsConst() {
		return tt.BoolConst(foldCmp(op, a.W, a.K, b.K))
	}
	if a == b {
		return tt.BoolConst(op == OpEq || op == OpUle || op == OpSle)
	}
	if op == OpEq {
		// canonical order: constant on the right
		if a.IsConst() {
			a, b = b, a
		}
		// (= (zext x) K): decide by range / push down
		if b.IsConst() && (a.Op == OpZext) {
			in := a.Args[0]
			if b.K > mask(in.W) {
				return tt.fls
			}
			return tt.Cmp(OpEq, in, tt.Const(in.W, b.K))
		}
		if b.IsConst() && a.Op == OpSext {
			in := a.Args[0]
			if uint64(sext64(b.K&mask(in.W), in.W))&mask(a.W) != b.K {
				return tt.fls
			}
			return tt.Cmp(OpEq, in, tt.Const(in.W, b.K))
		}
		if b.IsConst() && a.Op == OpIte && a.Args[1].IsConst() && a.Args[2].IsConst() {
			t1, t2 := a.Args[1].K == b.K, a.Args[2].K == b.K
			switch {
			case t1 && t2:
				return tt.tru
			case t1:
				return a.Args[0]
			case t2:
				return tt.Not(a.Args[0])
			default:
				return tt.fls
			}
		}
		if a.id > b.id && !b.IsConst() {
			a, b = b, a
		}
	}
	if (op == OpUlt || op == OpUle) && a.Op == OpZext && b.IsConst() {
		in := a.Args[0]
		if b.K > mask(in.W) {
			return tt.tru
		}
		return tt.Cmp(op, in, tt.Const(in.W, b.K))
	}
	if op == OpUlt && b.IsConst() && b.K == 0 {
		return tt.fls
	}
	return tt.intern(&Term{Op: op, W: 0, Args: []*Term{a, b}})
}

func (tt *TermTable) Not(a *Term) *Term {
	if a.IsConst() {
		return tt.BoolConst(a.K == 0)
	}
	if a.Op == OpNot {
		return a.Args[0]
	}
	return tt.intern(&Term{Op: OpNot, W: 0, Args: []*Term{a}})
}
func (tt *TermTable) And(a, b *Term) *Term {
	if a.IsFalse() || b.IsFalse() {
		return tt.fls
	}
	if a.IsTrue() {
		return b
	}
	if b.IsTrue() {
		return a
	}
	if a == b {
		return a
	}
	return tt.intern(&Term{Op: OpAnd, W: 0, Args: []*Term{a, b}})
}
func (tt *TermTable) Or(a, b *Term) *Term {
	if a.IsTrue() || b.IsTrue() {
		return tt.tru
	}
	if a.IsFalse() {
		return b
	}
	if b.IsFalse() {
		return a
	}
	if a == b {
		return a
	}
	return tt.intern(&Term{Op: OpOr, W: 0, Args: []*Term{a, b}})
}
func (tt *TermTable) BoolEq(a, b *Term) *Term {
	if a.IsConst() && b.IsConst() {
		return tt.BoolConst(a.K == b.K)
	}
	if a == b {
		return tt.tru
	}
	if a.IsConst() {
		a, b = b, a
	}
	if b.IsTrue() {
		return a
	}
	if b.IsFalse() {
		return tt.Not(a)
	}
	return tt.intern(&Term{Op: OpEq, W: 0, Args: []*Term{a, b}})
}
func (tt *TermTable) Ite(c, a, b *Term) *Term {
	if c.IsTrue() {
		return a
	}
	if c.IsFalse() {
		return b
	}
	if a == b {
		return a
	}
	if a.W == 0 {
		if a.IsTrue() && b.IsFalse() {
			return c
		}
		if a.IsFalse() && b.IsTrue() {
			return tt.Not(c)
		}
	}
	return tt.intern(&Term{Op: OpIte, W: a.W, Args: []*Term{c, a, b}})
}
func (tt *TermTable) BvNot(a *Term) *Term {
	if a.IsConst() {
		return tt.Const(a.W, ^a.K)
	}
	return tt.intern(&Term{Op: OpBvNot, W: a.W, Args: []*Term{a}})
}
func (tt *TermTable) BvNeg(a *Term) *Term {
	if a.IsConst() {
		return tt.Const(a.W, -a.K)
	}
	return tt.intern(&Term{Op: OpBvNeg, W: a.W, Args: []*Term{a}})
}

// Resize converts a bit-vector to width w (zero or sign extension, or truncation).
func (tt *TermTable) Resize(a *Term, w int, signed bool) *Term {
	if a.W == w {
		return a
	}
	if a.IsConst() {
		if w > a.W && signed {
			return tt.Const(w, uint64(sext64(a.K, a.W)))
		}
		return tt.Const(w, a.K)
	}
	if w < a.W {
		if (a.Op == OpZext || a.Op == OpSext) && a.Args[0].W >= w {
			return tt.Resize(a.Args[0], w, false)
		}
		return tt.intern(&Term{Op: OpExtract, W: w, Args: []*Term{a}, P1: w - 1, P2: 0})
	}
	op := OpZext
	if signed {
		op = OpSext
	}
	return tt.intern(&Term{Op: op, W: w, Args: []*Term{a}, P1: w - a.W})
}

// ---- floating point

func fbin(op Op, x, y float64) float64 {
	switch op {
	case OpFAdd:
		return x + y
	case OpFSub:
		return x - y
	case OpFMul:
		return x * y
	case OpFDiv:
		return x / y
	}
	panic("fbin")
}

func (tt *TermTable) FBin(op Op, a, b *Term) *Term {
	if a.IsFConst() && b.IsFConst() {
		return tt.FConst(fbin(op, math.Float64frombits(a.K), math.Float64frombits(b.K)))
	}
	return tt.intern(&Term{Op: op, W: FPW, Args: []*Term{a, b}})
}
func (tt *TermTable) FNeg(a *Term) *Term {
	if a.IsFConst() {
		return tt.FConstBits(a.K ^ (1 << 63))
	}
	return tt.intern(&Term{Op: OpFNeg, W: FPW, Args: []*Term{a}})
}
func (tt *TermTable) FAbs(a *Term) *Term {
	if a.IsFConst() {
		return tt.FConstBits(a.K &^ (1 << 63))
	}
	return tt.intern(&Term{Op: OpFAbs, W: FPW, Args: []*Term{a}})
}
func fcmp(op Op, x, y float64) bool {
	switch op {
	case OpFEq:
		return x == y
	case OpFLt:
		return x < y
	case OpFLe:
		return x <= y
	}
	panic("fcmp")
}

// FCmp: OpFEq, OpFLt, OpFLe.
func (tt *TermTable) FCmp(op Op, a, b *Term) *Term {
	if a.IsFConst() && b.IsFConst() {
		return tt.BoolConst(fcmp(op, math.Float64frombits(a.K), math.Float64frombits(b.K)))
	}
	return tt.intern(&Term{Op: op, W: 0, Args: []*Term{a, b}})
}
func (tt *TermTable) FIsNaN(a *Term) *Term {
	if a.IsFConst() {
		f := math.Float64frombits(a.K)
		return tt.BoolConst(f != f)
	}
	return tt.intern(&Term{Op: OpFIsNaN, W: 0, Args: []*Term{a}})
}
func (tt *TermTable) FSame(a, b *Term) *Term {
	if a == b {
		return tt.tru
	}
	if a.IsFConst() && b.IsFConst() {
		fx, fy := math.Float64frombits(a.K), math.Float64frombits(b.K)
		return tt.BoolConst(a.K == b.K || (fx != fx && fy != fy))
	}
	return tt.intern(&Term{Op: OpFSame, W: 0, Args: []*Term{a, b}})
}
func (tt *TermTable) FFromBits(a *Term) *Term {
	if a.IsConst() {
		return tt.FConstBits(a.K)
	}
	return tt.intern(&Term{Op: OpFFromBits, W: FPW, Args: []*Term{a}})
}
func (tt *TermTable) IntToFloat(a *Term, signed bool) *Term {
	if a.IsConst() {
		if signed {
			return tt.FConst(float64(sext64(a.K, a.W)))
		}
		return tt.FConst(float64(a.K))
	}
	op := OpFFromUInt
	if signed {
		op = OpFFromSInt
	}
	return tt.intern(&Term{Op: op, W: FPW, Args: []*Term{a}})
}

// FloatToInt converts with truncation; the caller must have established that the value is in range.
func (tt *TermTable) FloatToInt(a *Term, w int) *Term {
	if a.IsFConst() {
		return tt.Const(w, uint64(int64(math.Float64frombits(a.K))))
	}
	return tt.intern(&Term{Op: OpFToSInt, W: w, Args: []*Term{a}})
}
func (tt *TermTable) FToF32(a *Term) *Term {
	if a.IsFConst() {
		return tt.FConst(float64(float32(math.Float64frombits(a.K))))
	}
	return tt.intern(&Term{Op: OpFToF32, W: FPW, Args: []*Term{a}})
}

// UF applies an uninterpreted function.
func (tt *TermTable) UF(name string, w int, args ...*Term) *Term {
	return tt.intern(&Term{Op: OpUF, W: w, Name: name, Args: args})
}

// ---- printing

func sortName(w int) string {
	switch w {
	case 0:
		return "Bool"
	case FPW:
		return "(_ FloatingPoint 11 53)"
	}
	return fmt.Sprintf("(_ BitVec %d)", w)
}

// SMT prints the term as an S-expression, using let-free expansion with sharing through named definitions
// provided by the solver layer (defs): a term present in defs is printed by its name.
func (t *Term) SMT(sb *strings.Builder, defs map[*Term]string) {
	if defs != nil {
		if n, ok := defs[t]; ok {
			sb.WriteString(n)
			return
		}
	}
	switch t.Op {
	case OpConst:
		if t.W == 0 {
			if t.K == 1 {
				sb.WriteString("true")
			} else {
				sb.WriteString("false")
			}
			return
		}
		fmt.Fprintf(sb, "(_ bv%d %d)", t.K, t.W)
	case OpVar:
		sb.WriteString(t.Name)
	case OpFConst:
		fmt.Fprintf(sb, "((_ to_fp 11 53) (_ bv%d 64))", t.K)
	case OpFAdd, OpFSub, OpFMul, OpFDiv:
		sb.WriteString(map[Op]string{OpFAdd: "(fp.add RNE ", OpFSub: "(fp.sub RNE ", OpFMul: "(fp.mul RNE ", OpFDiv: "(fp.div RNE "}[t.Op])
		t.Args[0].SMT(sb, defs)
		sb.WriteString(" ")
		t.Args[1].SMT(sb, defs)
		sb.WriteString(")")
	case OpFSqrt:
		sb.WriteString("(fp.sqrt RNE ")
		t.Args[0].SMT(sb, defs)
		sb.WriteString(")")
	case OpFFromBits:
		sb.WriteString("((_ to_fp 11 53) ")
		t.Args[0].SMT(sb, defs)
		sb.WriteString(")")
	case OpFFromSInt:
		sb.WriteString("((_ to_fp 11 53) RNE ")
		t.Args[0].SMT(sb, defs)
		sb.WriteString(")")
	case OpFFromUInt:
		sb.WriteString("((_ to_fp_unsigned 11 53) RNE ")
		t.Args[0].SMT(sb, defs)
		sb.WriteString(")")
	case OpFToSInt:
		fmt.Fprintf(sb, "((_ fp.to_sbv %d) RTZ ", t.W)
		t.Args[0].SMT(sb, defs)
		sb.WriteString(")")
	case OpFToBitsEq:
		sb.WriteString("(= ((_ to_fp 11 53) ")
		t.Args[0].SMT(sb, defs)
		sb.WriteString(") ")
		t.Args[1].SMT(sb, defs)
		sb.WriteString(")")
	case OpFSame:
		sb.WriteString("(= ")
		t.Args[0].SMT(sb, defs)
		sb.WriteString(" ")
		t.Args[1].SMT(sb, defs)
		sb.WriteString(")")
	case OpFToF32:
		sb.WriteString("((_ to_fp 11 53) RNE ((_ to_fp 8 24) RNE ")
		t.Args[0].SMT(sb, defs)
		sb.WriteString("))")
	case OpExtract:
		fmt.Fprintf(sb, "((_ extract %d %d) ", t.P1, t.P2)
		t.Args[0].SMT(sb, defs)
		sb.WriteString(")")
	case OpZext:
		fmt.Fprintf(sb, "((_ zero_extend %d) ", t.P1)
		t.Args[0].SMT(sb, defs)
		sb.WriteString(")")
	case OpSext:
		fmt.Fprintf(sb, "((_ sign_extend %d) ", t.P1)
		t.Args[0].SMT(sb, defs)
		sb.WriteString(")")
	case OpUF:
		if len(t.Args) == 0 {
			sb.WriteString(t.Name)
			return
		}
		sb.WriteString("(" + t.Name)
		for _, a := range t.Args {
			sb.WriteString(" ")
			a.SMT(sb, defs)
		}
		sb.WriteString(")")
	default:
		name, ok := opSMT[t.Op]
		if !ok {
			panic(fmt.Sprintf("SMT: no printer for op %d", t.Op))
		}
		sb.WriteString("(")
		sb.WriteString(name)
		for _, a := range t.Args {
			sb.WriteString(" ")
			a.SMT(sb, defs)
		}
		sb.WriteString(")")
	}
}

func (t *Term) String() string {
	var sb strings.Builder
	t.SMT(&sb, nil)
	return sb.String()
}

// Vars collects variable and UF symbols.
func (t *Term) Vars(into map[*Term]bool, seen map[*Term]bool) {
	if seen[t] {
		return
	}
	seen[t] = true
	if t.Op == OpVar || t.Op == OpUF {
		into[t] = true
	}
	for _, a := range t.Args {
		a.Vars(into, seen)
	}
}

// HasFP reports whether the term mentions the floating point sort.
func (t *Term) HasFP() bool {
	if t.fp != 0 {
		return t.fp == 2
	}
	r := t.W == FPW || (t.Op >= OpFAdd && t.Op <= OpFToBitsEq) || t.Op >= OpFAbs
	if !r {
		for _, a := range t.Args {
			if a.HasFP() {
				r = true
				break
			}
		}
	}
	if r {
		t.fp = 2
	} else {
		t.fp = 1
	}
	return r
}

// Size is the number of distinct DAG nodes (capped).
func (t *Term) Size() int {
	seen := map[*Term]bool{}
	var walk func(*Term)
	walk = func(u *Term) {
		if seen[u] || len(seen) > 100000 {
			return
		}
		seen[u] = true
		for _, a := range u.Args {
			walk(a)
		}
	}
	walk(t)
	return len(seen)
}

// ---- evaluation under a model (variables -> uint64 bits; Bool 0/1; Float vars hold IEEE bits)

type Model map[*Term]uint64

// Eval computes the value of t under m; ok=false if an unassigned variable / UF is met.
func (m Model) Eval(t *Term, cache map[*Term]uint64) (uint64, bool) {
	if v, ok := cache[t]; ok {
		return v, true
	}
	var r uint64
	switch t.Op {
	case OpConst, OpFConst:
		return t.K, true
	case OpVar:
		v, ok := m[t]
		return v, ok
	case OpUF:
		v, ok := m[t]
		return v, ok
	}
	var a [3]uint64
	for i, x := range t.Args {
		if i >= 3 {
			return 0, false
		}
		v, ok := m.Eval(x, cache)
		if !ok {
			return 0, false
		}
		a[i] = v
	}
	b2u := func(b bool) uint64 {
		if b {
			return 1
		}
		return 0
	}
	f := math.Float64frombits
	switch t.Op {
	case OpBvAdd, OpBvSub, OpBvMul, OpBvAnd, OpBvOr, OpBvXor, OpBvShl, OpBvLshr, OpBvAshr, OpBvUdiv, OpBvUrem, OpBvSdiv, OpBvSrem:
		r = foldBin(t.Op, t.W, a[0], a[1])
	case OpBvNot:
		r = ^a[0] & mask(t.W)
	case OpBvNeg:
		r = -a[0] & mask(t.W)
	case OpExtract:
		r = (a[0] >> uint(t.P2)) & mask(t.W)
	case OpZext:
		r = a[0]
	case OpSext:
		r = uint64(sext64(a[0], t.Args[0].W)) & mask(t.W)
	case OpEq:
		if t.Args[0].W == FPW {
			panic("OpEq on floats")
		}
		r = b2u(a[0] == a[1])
	case OpUlt, OpUle, OpSlt, OpSle:
		r = b2u(foldCmp(t.Op, t.Args[0].W, a[0], a[1]))
	case OpNot:
		r = a[0] ^ 1
	case OpAnd:
		r = a[0] & a[1]
	case OpOr:
		r = a[0] | a[1]
	case OpIte:
		if a[0] == 1 {
			r = a[1]
		} else {
			r = a[2]
		}
	case OpFAdd, OpFSub, OpFMul, OpFDiv:
		r = math.Float64bits(fbin(t.Op, f(a[0]), f(a[1])))
	case OpFNeg:
		r = a[0] ^ (1 << 63)
	case OpFAbs:
		r = a[0] &^ (1 << 63)
	case OpFSqrt:
		r = math.Float64bits(math.Sqrt(f(a[0])))
	case OpFEq, OpFLt, OpFLe:
		r = b2u(fcmp(t.Op, f(a[0]), f(a[1])))
	case OpFIsNaN:
		r = b2u(f(a[0]) != f(a[0]))
	case OpFFromBits:
		r = a[0]
	case OpFFromSInt:
		r = math.Float64bits(float64(sext64(a[0], t.Args[0].W)))
	case OpFFromUInt:
		r = math.Float64bits(float64(a[0]))
	case OpFToSInt:
		r = uint64(int64(f(a[0]))) & mask(t.W)
	case OpFToF32:
		r = math.Float64bits(float64(float32(f(a[0]))))
	case OpFSame:
		fx, fy := f(a[0]), f(a[1])
		r = b2u(a[0] == a[1] || (fx != fx && fy != fy))
	case OpFToBitsEq:
		x, y := a[0], a[1]
		fx, fy := f(x), f(y)
		r = b2u(x == y || (fx != fx && fy != fy))
	default:
		return 0, false
	}
	if cache != nil {
		cache[t] = r
	}
	return r, true
}
