package main

func cmdCheck(args []string) int  { return 2 }
func cmdReplay(args []string) int { return 2 }
