package main

import (
	"sync/atomic"
	"bufio"
	"encoding/json"
	"flag"
	"fmt"
	"os"
	"os/exec"
	"path/filepath"
	"runtime"
	"sort"
	"strconv"
	"strings"
	"time"
)

// PropSpec describes how one property is decided.
type PropSpec struct {
	ID          string
	Jobs        func(tier string, seed int64) []Job
	Budget      map[string]time.Duration // per tier wall budget for exploration
	Reach       []string                 // vacuity labels that must be reached on the unchanged tree
	Bounds      map[string]interface{}
	Assumptions []string
	Outside     []string
	TimeoutMs   map[string]int
	// Hang: labels whose native replay is expected not to terminate (a timeout then counts as reproduced).
	HangLabels []string
}

var props = map[string]*PropSpec{}

func register(p *PropSpec) { props[p.ID] = p }

type replayFile struct {
	Property string       `json:"property"`
	Pkg      string       `json:"pkg"`
	Harness  string       `json:"harness"`
	Args     []string     `json:"args"`
	Nondet   []replayVal  `json:"nondet"`
	Label    string       `json:"label"`
	Panic    bool         `json:"panic"`
	Notes    []string     `json:"notes,omitempty"`
	Native   *nativeState `json:"native,omitempty"`
}

type replayVal struct {
	Tag   string `json:"tag"`
	Kind  string `json:"kind"`
	Value uint64 `json:"value"`
}

type nativeState struct {
	Result     string `json:"result"`
	Reproduced bool   `json:"reproduced"`
}

type finding struct {
	kind string // finding | fixed
	prop string
	key  string
	text string
}

func loadFindings() []finding {
	var out []finding
	f, err := os.Open(filepath.Join(verifDir, "known_findings.txt"))
	if err != nil {
		return nil
	}
	defer f.Close()
	sc := bufio.NewScanner(f)
	sc.Buffer(make([]byte, 1<<20), 1<<20)
	for sc.Scan() {
		line := strings.TrimSpace(sc.Text())
		if line == "" || strings.HasPrefix(line, "#") {
			continue
		}
		var fd finding
		switch {
		case strings.HasPrefix(line, "finding:"):
			fd.kind = "finding"
			line = strings.TrimSpace(strings.TrimPrefix(line, "finding:"))
		case strings.HasPrefix(line, "fixed:"):
			fd.kind = "fixed"
			line = strings.TrimSpace(strings.TrimPrefix(line, "fixed:"))
		default:
			continue
		}
		if strings.HasPrefix(line, "property=") {
			sp := strings.IndexByte(line, ' ')
			if sp < 0 {
				continue
			}
			fd.prop = line[len("property="):sp]
			line = strings.TrimSpace(line[sp:])
		}
		if strings.HasPrefix(line, "key=\"") {
			rest := line[len("key=\""):]
			end := -1
			for i := 0; i+1 < len(rest); i++ {
				if rest[i] == '\\' {
					i++
					continue
				}
				if rest[i] == '"' && rest[i+1] == ' ' {
					end = i
					break
				}
			}
			if end < 0 {
				end = strings.LastIndex(rest, "\"")
			}
			if end >= 0 {
				fd.key = rest[:end]
				// keys are written in Go-quoted form (as the check prints them)
				if u, err := strconv.Unquote("\"" + fd.key + "\""); err == nil {
					fd.key = u
				}
				line = strings.TrimSpace(rest[end+1:])
			}
		}
		fd.text = line
		out = append(out, fd)
	}
	return out
}

type vioReport struct {
	agg        *VioAgg
	replayPath string
	native     string
	reproduced bool
	known      *finding
}

func cmdCheck(args []string) int {
	fs := flag.NewFlagSet("check", flag.ExitOnError)
	tier := fs.String("tier", "", "quick|thorough")
	workers := fs.Int("j", runtime.NumCPU(), "workers")
	solver := fs.String("solver", "z3", "solver binary")
	noReplay := fs.Bool("no-replay", false, "skip native replay (development)")
	budgetOverride := fs.Duration("budget", 0, "override exploration budget")
	filter := fs.String("filter", "", "only jobs whose id contains this (development)")
	noXcheck := fs.Bool("no-xcheck", false, "skip re-deciding sampled queries with z3 5.x and cvc5")
	maxJobs := fs.Int("max-jobs", 0, "only the first N jobs (development)")
	listVio := fs.Bool("list-violations", false, "print every job with a violated label (development)")
	var id string
	if len(args) > 0 && !strings.HasPrefix(args[0], "-") {
		id = args[0]
		args = args[1:]
	}
	fs.Parse(args)
	if id == "" && fs.NArg() > 0 {
		id = fs.Arg(0)
	}
	if *tier == "" {
		*tier = os.Getenv("VERIF_TIER")
	}
	if *tier != "thorough" {
		*tier = "quick"
	}
	seed, _ := strconv.ParseInt(os.Getenv("VERIF_SEED"), 10, 64)
	p, ok := props[id]
	if !ok {
		fmt.Fprintln(os.Stderr, "unknown property", id)
		return 2
	}
	start := time.Now()
	ev := newEvidence(id, *tier, seed)
	l, err := loadProgram(nil)
	if err != nil {
		fmt.Printf("INCONCLUSIVE property=%s harness-does-not-build: %v\n", id, err)
		for i, e := range l.errsOrNil() {
			if i < 10 {
				fmt.Println("  ", e)
			}
		}
		ev.inconclusive("harness-does-not-build: " + err.Error())
		ev.write(time.Since(start))
		return 0
	}
	loadT := time.Since(start)
	jobs := p.Jobs(*tier, seed)
	if *filter != "" {
		var kept []Job
		for _, j := range jobs {
			if strings.Contains(j.ID(), *filter) {
				kept = append(kept, j)
			}
		}
		jobs = kept
	}
	if *maxJobs > 0 && len(jobs) > *maxJobs {
		jobs = jobs[:*maxJobs]
	}
	tmo := 10000
	if t, ok := p.TimeoutMs[*tier]; ok {
		tmo = t
	}
	// a runaway exploration must not take the machine down: give up (inconclusive) above 40 GiB of heap
	go func() {
		var ms runtime.MemStats
		for {
			time.Sleep(5 * time.Second)
			runtime.ReadMemStats(&ms)
			if ms.HeapAlloc > 24<<30 && atomic.LoadInt32(&abortAll) == 0 {
				fmt.Printf("INCONCLUSIVE property=%s reason=memory (heap above 24 GiB: the rest of the exploration is abandoned; what was found so far is reported)\n", id)
				atomic.StoreInt32(&abortAll, 1)
			}
			if ms.HeapAlloc > 48<<30 {
				os.Exit(0) // last resort
			}
		}
	}()
	r := NewRunner(l, *workers, *solver, tmo)
	budget := p.Budget[*tier]
	if *budgetOverride > 0 {
		budget = *budgetOverride
	}
	t1 := time.Now()
	results := r.Run(jobs, budget)
	exploreT := time.Since(t1)

	if *listVio {
		for _, jr := range results {
			for _, k := range sortedKeys(jr.Vio) {
				fmt.Printf("JOBVIO %q %s\n", k, jr.Job.ID())
			}
		}
	}
	// collect violations (one per label per property; keep the first job that showed it)
	byLabel := map[string]*vioReport{}
	var order []string
	for _, jr := range results {
		for _, k := range sortedKeys(jr.Vio) {
			a := jr.Vio[k]
			if rp, ok := byLabel[k]; ok {
				rp.agg.Count += a.Count
				continue
			}
			cp := *a
			byLabel[k] = &vioReport{agg: &cp}
			order = append(order, k)
		}
	}
	sort.Strings(order)
	os.MkdirAll(outDir("replays"), 0o755)
	old, _ := filepath.Glob(filepath.Join(outDir("replays"), id+"-*.json"))
	for _, f := range old {
		os.Remove(f)
	}
	for i, k := range order {
		rp := byLabel[k]
		rp.replayPath = filepath.Join(outDir("replays"), fmt.Sprintf("%s-%03d.json", id, i+1))
		writeReplay(id, rp)
	}
	replayT := time.Duration(0)
	if len(order) > 0 && !*noReplay {
		t2 := time.Now()
		nativeReplay(l, p, byLabel, order)
		replayT = time.Since(t2)
	}
	findings := loadFindings()
	exit := 0
	nKnown, nNew, nMismatch := 0, 0, 0
	for _, k := range order {
		rp := byLabel[k]
		if !*noReplay && !rp.reproduced {
			nMismatch++
			fmt.Printf("ENGINE-MISMATCH property=%s label=%q native=%q replay=%s (not reported as a violation)\n", id, k, rp.native, rp.replayPath)
			continue
		}
		for i := range findings {
			f := &findings[i]
			if f.kind == "finding" && f.prop == id && f.key == k {
				rp.known = f
				break
			}
		}
		if rp.known != nil {
			nKnown++
			fmt.Printf("KNOWN-FINDING: property=%s key=%q %s\n", id, k, rp.known.text)
			continue
		}
		nNew++
		exit = 1
		fmt.Printf("VIOLATION property=%s replay=%s label=%q\n", id, rp.replayPath, k)
	}
	ev.fill(p, r, results, byLabel, order, loadT, exploreT, replayT, nKnown, nNew, nMismatch)
	if !*noXcheck {
		tx := time.Now()
		xc := crossCheck(id, r.XSamples)
		xc["wall_s"] = time.Since(tx).Seconds()
		ev.Coverage["solver_crosscheck"] = xc
	}
	ev.write(time.Since(start))
	summary(id, *tier, results, r, time.Since(start), nKnown, nNew, nMismatch)
	return exit
}

func (l *Loaded) errsOrNil() []string {
	if l == nil {
		return nil
	}
	return l.errs
}

func summary(id, tier string, results []*JobResult, r *Runner, wall time.Duration, nKnown, nNew, nMismatch int) {
	paths, completed, notExp, unknown := 0, 0, 0, 0
	ends := map[string]int{}
	for _, jr := range results {
		paths += jr.Paths
		completed += jr.Completed
		notExp += jr.NotExplored
		unknown += jr.UnknownQ
		for k, v := range jr.Ends {
			if k != "ok" {
				ends[k] += v
			}
		}
	}
	fmt.Printf("SUMMARY property=%s tier=%s jobs=%d paths=%d completed=%d not_explored=%d queries=%d unknown_queries=%d solver_s=%.1f violations_new=%d known=%d engine_mismatch=%d wall_s=%.1f\n",
		id, tier, len(results), paths, completed, notExp, r.Queries, r.SolverUnknown, r.SolverTime.Seconds(), nNew, nKnown, nMismatch, wall.Seconds())
	top := append([]*JobResult{}, results...)
	sort.Slice(top, func(i, j int) bool { return top[i].Paths > top[j].Paths })
	for i, jr := range top {
		if i >= 3 || jr.Paths < 1000 {
			break
		}
		fmt.Printf("  biggest job %s paths=%d\n", trunc(jr.Job.ID(), 160), jr.Paths)
	}
	sort.Slice(top, func(i, j int) bool { return top[i].Wall > top[j].Wall })
	for i, jr := range top {
		if i >= 5 || jr.Wall < 5*time.Second {
			break
		}
		fmt.Printf("  slowest job %s paths=%d cpu_s=%.1f\n", trunc(jr.Job.ID(), 160), jr.Paths, jr.Wall.Seconds())
	}
	keys := sortedKeys(ends)
	sort.Slice(keys, func(i, j int) bool { return ends[keys[i]] > ends[keys[j]] })
	for i, k := range keys {
		if i >= 12 {
			break
		}
		fmt.Printf("  end %-70s %d\n", k, ends[k])
	}
	for k, n := range r.EngineErrors {
		fmt.Printf("  ENGINE-ERROR x%d: %s\n", n, k)
	}
	if r.SolverErrors > 0 {
		fmt.Printf("  SOLVER-ERRORS %d (error lines from the solver: the affected queries were treated as inconclusive)\n", r.SolverErrors)
	}
}

func writeReplay(id string, rp *vioReport) {
	a := rp.agg
	rf := replayFile{Property: id, Pkg: a.Job.Pkg, Harness: a.Job.Func, Args: a.Job.Args, Label: a.Label, Panic: a.First.Panic, Notes: a.Notes}
	for i, n := range a.First.Nondet {
		rf.Nondet = append(rf.Nondet, replayVal{Tag: n.Tag, Kind: n.Kind, Value: a.First.Values[i]})
	}
	if rp.native != "" {
		rf.Native = &nativeState{Result: rp.native, Reproduced: rp.reproduced}
	}
	b, _ := json.MarshalIndent(rf, "", " ")
	os.WriteFile(rp.replayPath, b, 0o644)
}

const replayTestSrc = `//go:build verif

package PKG

import "testing"

func TestVerifReplay(t *testing.T) { VerifReplayAll() }
`

// buildReplayBinary compiles the package's test binary with the harness overlay; returns its path.
func buildReplayBinary(l *Loaded, pkg string, tmp string) (string, error) {
	dir := filepath.Join(repoDir, pkg)
	goPkg := pkg
	target := "./" + pkg + "/"
	if pkg == "root" {
		dir, goPkg, target = repoDir, "main", "."
	}
	rep := map[string]string{}
	n := 0
	for vpath, content := range l.overlay {
		if filepath.Dir(vpath) != dir {
			// harness files of other packages are needed too when this package imports them
		}
		n++
		real := filepath.Join(tmp, fmt.Sprintf("ov%d_%s", n, filepath.Base(vpath)))
		if err := os.WriteFile(real, content, 0o644); err != nil {
			return "", err
		}
		rep[vpath] = real
	}
	testFile := filepath.Join(tmp, "replay_"+pkg+"_test.go")
	os.WriteFile(testFile, []byte(strings.Replace(replayTestSrc, "package PKG", "package "+goPkg, 1)), 0o644)
	rep[filepath.Join(dir, "zz_verif_replay_test.go")] = testFile
	ovb, _ := json.Marshal(map[string]interface{}{"Replace": rep})
	ovPath := filepath.Join(tmp, "overlay_"+pkg+".json")
	os.WriteFile(ovPath, ovb, 0o644)
	bin := filepath.Join(tmp, pkg+".test")
	cmd := exec.Command("go", "test", "-c", "-o", bin, "-tags", "verif", "-vet=off", "-overlay", ovPath, target)
	cmd.Dir = repoDir
	cmd.Env = append(os.Environ(), "GOFLAGS=-mod=mod", "GOPROXY=off")
	out, err := cmd.CombinedOutput()
	if err != nil {
		return "", fmt.Errorf("go test -c failed: %v\n%s", err, out)
	}
	return bin, nil
}

func nativeReplay(l *Loaded, p *PropSpec, byLabel map[string]*vioReport, order []string) {
	tmp, err := os.MkdirTemp("", "gosym-replay-")
	if err != nil {
		return
	}
	defer os.RemoveAll(tmp)
	bins := map[string]string{}
	type res struct {
		k   string
		out string
	}
	ch := make(chan res, len(order))
	sem := make(chan struct{}, 8)
	pending := 0
	for _, k := range order {
		rp := byLabel[k]
		pkg := rp.agg.Job.Pkg
		bin, ok := bins[pkg]
		if !ok {
			b, err := buildReplayBinary(l, pkg, tmp)
			if err != nil {
				fmt.Println("REPLAY-BUILD-FAILED", err)
				b = ""
			}
			bins[pkg] = b
			bin = b
		}
		if bin == "" {
			rp.native = "error:replay binary not built"
			continue
		}
		pending++
		go func(k string, rp *vioReport, bin string) {
			sem <- struct{}{}
			defer func() { <-sem }()
			cwd, _ := os.MkdirTemp(tmp, "cwd")
			cmd := exec.Command("timeout", "-s", "KILL", "20", bin, "-test.run", "^TestVerifReplay$", "-test.timeout", "60s")
			cmd.Dir = cwd
			cmd.Env = append(os.Environ(), "VERIF_REPLAYS="+rp.replayPath)
			out, _ := cmd.CombinedOutput()
			result := "timeout"
			for _, line := range strings.Split(string(out), "\n") {
				if strings.HasPrefix(line, "VERIF-RESULT ") {
					parts := strings.SplitN(line, " ", 3)
					if len(parts) == 3 {
						result = parts[2]
					}
				}
			}
			if result == "timeout" && strings.Contains(string(out), "panic:") {
				result = "crash:" + firstLine(string(out))
			}
			ch <- res{k, result}
		}(k, rp, bin)
	}
	for i := 0; i < pending; i++ {
		r := <-ch
		rp := byLabel[r.k]
		rp.native = r.out
		switch {
		case strings.HasPrefix(r.k, "go-panic:"):
			cls := r.k
			if at := strings.LastIndex(cls, "@"); at >= 0 {
				cls = cls[:at]
			}
			rp.reproduced = r.out == cls || strings.HasPrefix(r.out, "crash:")
			// an uncomparable value used as a map key: the runtime reports it from the hash function, the executor's
			// map model from the key comparison - the same Go panic class for the property
			uncomparable := func(c string) bool {
				return c == "go-panic:comparing uncomparable" || c == "go-panic:hash of unhashable"
			}
			if uncomparable(cls) && uncomparable(r.out) {
				rp.reproduced = true
			}
		case r.out == "timeout":
			for _, h := range p.HangLabels {
				if h == r.k {
					rp.reproduced = true
				}
			}
		default:
			rp.reproduced = r.out == "fail:"+r.k
		}
		writeReplay(p.ID, rp)
	}
}

func firstLine(s string) string {
	for _, l := range strings.Split(s, "\n") {
		if strings.HasPrefix(l, "panic:") || strings.HasPrefix(l, "fatal error:") {
			return l
		}
	}
	return ""
}

// cmdReplay re-runs one replay file natively and prints the outcome.
func cmdReplay(args []string) int {
	if len(args) < 1 {
		fmt.Fprintln(os.Stderr, "replay <file>")
		return 2
	}
	b, err := os.ReadFile(args[0])
	if err != nil {
		fmt.Fprintln(os.Stderr, err)
		return 2
	}
	var rf replayFile
	if err := json.Unmarshal(b, &rf); err != nil {
		fmt.Fprintln(os.Stderr, err)
		return 2
	}
	l := &Loaded{}
	l.overlay, err = harnessOverlay()
	if err != nil {
		fmt.Fprintln(os.Stderr, err)
		return 2
	}
	abs, _ := filepath.Abs(args[0])
	rp := &vioReport{agg: &VioAgg{Label: rf.Label, Job: Job{Pkg: rf.Pkg, Func: rf.Harness, Args: rf.Args}}, replayPath: abs}
	p := props[rf.Property]
	if p == nil {
		p = &PropSpec{ID: rf.Property}
	}
	// do not rewrite the replay file's inputs: nativeReplay only adds the native outcome
	for _, n := range rf.Nondet {
		rp.agg.First.Nondet = append(rp.agg.First.Nondet, NondetVal{Tag: n.Tag, Kind: n.Kind})
		rp.agg.First.Values = append(rp.agg.First.Values, n.Value)
	}
	rp.agg.First.Panic = rf.Panic
	nativeReplay(l, p, map[string]*vioReport{rf.Label: rp}, []string{rf.Label})
	fmt.Printf("replay %s: label=%q native=%q reproduced=%v\n", args[0], rf.Label, rp.native, rp.reproduced)
	if rp.reproduced {
		return 1
	}
	return 0
}

func trunc(s string, n int) string {
	if len(s) <= n {
		return s
	}
	return s[:n/2] + " ... " + s[len(s)-n/2:]
}

// outDir is /verif/<kind>, or a scratch directory when the run targets a seeded worktree (VERIF_REPO): evidence
// and replay files under /verif only ever come from runs against /repo itself.
func outDir(kind string) string {
	if os.Getenv("VERIF_REPO") != "" {
		d := filepath.Join(os.TempDir(), "gosym-seed-"+kind)
		os.MkdirAll(d, 0o755)
		return d
	}
	return filepath.Join(verifDir, kind)
}
