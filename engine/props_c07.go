package main

import "time"

// operand kinds of DESIGN Appendix A (free variables a b c Integer, x y Float, p q Boolean, s String are
// bound to symbolic values by the harness).
var kindExprs = []string{
	"a", "x", "p", "nil", "s", `""`, "[]", "[a,b]", "[0,1,2,3,4,5,6,7,a]", "{}", "{a:b}", "{1:1,2:2,3:3,4:4,a:b}",
	"func(y){y}", "quote(a)",
}

var infixOps = []string{"+", "-", "*", "/", "%", "<", ">", "<=", ">=", "==", "!=", "&&", "||", "&", "|", "^", "<<", ">>", ":"}
var prefixOps = []string{"-", "!", "~", "^", "+"}

func c07Programs(tier string) []string {
	var ps []string
	add := func(p string) { ps = append(ps, p) }
	second := map[string]string{"a": "b", "x": "y", "p": "q", "[a,b]": "[b,c]", "{a:b}": "{c:a}"}
	for _, l := range kindExprs {
		for _, r := range kindExprs {
			rr := r
			if l == r {
				if o, ok := second[r]; ok {
					rr = o
				}
			}
			for _, op := range infixOps {
				add("(" + l + ") " + op + " (" + rr + ")")
			}
		}
	}
	for _, r := range kindExprs {
		for _, op := range prefixOps {
			add(op + "(" + r + ")")
		}
		add("v=" + r + "; v++")
		add("v=" + r + "; v--; v")
		add("v=" + r + "; ++v")
		add("v=" + r + "; --v; v")
		for _, i := range []string{"a", "nil", "s", "x", "p", "-1", "[a]"} {
			add("(" + r + ")[" + i + "]")
			add("v=" + r + "; v[" + i + "]=b; v")
			add("v=" + r + "; del(v[" + i + "]); v")
			for _, j := range []string{"b", "nil", "s"} {
				add("(" + r + ")[" + i + ":" + j + "]")
			}
			add("(" + r + ")[" + i + ":]")
		}
		add("(" + r + ").k")
		add("v=" + r + "; v.k=a; v")
		add("v=" + r + "; del(v.k)")
		add("v=" + r + "; del(v); v")
		for _, b := range []string{"len", "first", "rest", "print", "println", "log", "error", "catch", "quote", "unquote", "del"} {
			add(b + "(" + r + ")")
			add(b + "(" + r + "," + r + ")")
		}
		add("(" + r + ")(a)")
		add("(" + r + ")()")
		add("for " + r + " {1}")
		add("for i = " + r + " {i}")
		add("if " + r + " {1} else {2}")
		add("func f(u){u}; f(" + r + ")")
		add("func f(u,..){..}; f(a," + r + ")")
		add("m=macro(u){quote(unquote(u)+1)}; m(" + r + ")")
		add("catch(" + r + "+1)")
		add("return " + r)
	}
	for _, b := range []string{"len", "first", "rest", "print", "println", "log", "error", "catch", "quote", "unquote", "del"} {
		add(b + "()")
	}
	ps = append(ps,
		"func(y){y}()", "func(y){y}(1,2)", "func(y,..){..}(a,[1,2])", "func(y,..){..}()",
		"for i = 0:(c&3) {i}", "for i = (a&3):(b&7) {i}", "for (c&3) {a/b}", "for i=a {break}", "for i=[a,b] {continue}",
		"func f(n){if n<=0 {return 0}; f(n-1)}; f(c&63)", "func f(n){f(n+1)}; f(a)",
		"func f(u,v,w,z,t){u+v+w+z+t}; f(a,b,c,a,b)",
		"func f(k1,k2,k3,k4,k5,k6,k7,k8,k9,k10){k1+k10}; f(a,b,c,a,b,c,a,b,c,a)",
		"m=macro(u,v){quote(if unquote(u) {unquote(v)})}; m(p, a/b)",
		"m=macro(){quote(1)}; m()", "m=macro(u){u}; m(a)", "m=macro(u){quote(unquote(u))}; func g(t){t+1}; m(g(a))",
		"quote(unquote(a/b))", "unquote(a)", "quote(a)+quote(b)", "self", "self()", "info", "info.globals", "..", "a.b", "a..b",
		"x%y", "x/y", "-x", "a*b", "a-b", "a+b", "[a:b]", "{a:b}[a]", "{x:1,y:2}", "{[a]:1,[b]:2}", "{p:1,q:2,nil:3}",
		"A=[0,1,2,3,4,5,6,7,8]; A[a]=b", "B={1:1,2:2,3:3,4:4,5:5}; B[a]=b", "PI=a", "func F(){1}; F=a",
		"a=b; a++; a", "s[a]", "s[a:b]", "s+s", "s*(c&3)", "s*a", "[a,b]*(c&3)", "[a,b]*c", "[]*a", "{a:b}+{b:c}",
		"first(s)", "rest(s)", "len(s)", "for c1 = s {c1}", "for kv = {a:b,c:a} {kv}",
	)
	return ps
}

func init() {
	register(&PropSpec{
		ID: "C07",
		Jobs: func(tier string, seed int64) []Job {
			var jobs []Job
			progs := c07Programs(tier)
			for _, p := range progs {
				jobs = append(jobs, Job{Prop: "C07", Pkg: "eval", Func: "VerifNoPanic", Args: []string{p, "reg"}, MaxDec: 600})
			}
			if tier == "thorough" {
				for _, p := range progs {
					jobs = append(jobs, Job{Prop: "C07", Pkg: "eval", Func: "VerifNoPanic", Args: []string{p, "noreg"}, MaxDec: 600})
				}
			} else {
				for i, p := range progs {
					if i%7 == 0 {
						jobs = append(jobs, Job{Prop: "C07", Pkg: "eval", Func: "VerifNoPanic", Args: []string{p, "noreg"}, MaxDec: 600})
					}
				}
			}
			return jobs
		},
		Budget: map[string]time.Duration{"quick": 8 * time.Minute, "thorough": 60 * time.Minute},
		Reach:  []string{"value", "language-level error", "resource guard"},
		Bounds: map[string]interface{}{"skeletons": "every infix operator x every ordered pair of 14 operand kinds; every prefix/postfix operator, index, slice, dot, index-assignment, del, builtin (1 and 2 arguments), call, for, if, function/variadic/macro argument x every kind; plus a list of loop, recursion, macro and boundary programs (see engine/props_c07.go)",
			"values": "all int64 for a,b,c; all float64 for x,y; both booleans; all 2-byte strings for s",
			"depth":  "MaxDepth 60; loops whose trip count is symbolic are explored up to the executor's value-enumeration limit (64) and reported as bound-exceeded beyond"},
		Outside: []string{"programs deeper than one operator over the listed operand kinds", "extension functions (need extensions.Init; covered for argument validation by the repl-package harness when built)", "byte-level mutations of the shipped examples"},
	})
}
