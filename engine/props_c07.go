package main

import (
	"strings"
	"time"
)

// operand kinds of DESIGN Appendix A (free variables a b c Integer, x y Float, p q Boolean, s String are
// bound to symbolic values by the harness).
var kindExprs = []string{
	"a", "x", "p", "nil", "s", `""`, "[]", "[a,b]", "[0,1,2,3,4,5,6,7,a]", "{}", "{a:b}", "{1:1,2:2,3:3,4:4,a:b}",
	"func(y){y}", "quote(a)",
}

var infixOps = []string{"+", "-", "*", "/", "%", "<", ">", "<=", ">=", "==", "!=", "&&", "||", "&", "|", "^", "<<", ">>", ":"}
var prefixOps = []string{"-", "!", "~", "^", "+"}

func c07Programs(tier string) []string {
	var ps []string
	add := func(p string) { ps = append(ps, p) }
	second := map[string]string{"a": "b", "x": "y", "p": "q", "[a,b]": "[b,c]", "{a:b}": "{c:a}"}
	for _, l := range kindExprs {
		for _, r := range kindExprs {
			rr := r
			if l == r {
				if o, ok := second[r]; ok {
					rr = o
				}
			}
			for _, op := range infixOps {
				add("(" + l + ") " + op + " (" + rr + ")")
			}
		}
	}
	for _, r := range kindExprs {
		for _, op := range prefixOps {
			add(op + "(" + r + ")")
		}
		add("v=" + r + "; v++")
		add("v=" + r + "; v--; v")
		add("v=" + r + "; ++v")
		add("v=" + r + "; --v; v")
		for _, i := range []string{"a", "nil", "s", "x", "p", "-1", "[a]"} {
			add("(" + r + ")[" + i + "]")
			add("v=" + r + "; v[" + i + "]=b; v")
			add("v=" + r + "; del(v[" + i + "]); v")
			for _, j := range []string{"b", "nil", "s"} {
				add("(" + r + ")[" + i + ":" + j + "]")
			}
			add("(" + r + ")[" + i + ":]")
		}
		add("(" + r + ").k")
		add("v=" + r + "; v.k=a; v")
		add("v=" + r + "; del(v.k)")
		add("v=" + r + "; del(v); v")
		for _, b := range []string{"len", "first", "rest", "print", "println", "log", "error", "catch", "quote", "unquote", "del"} {
			add(b + "(" + r + ")")
			add(b + "(" + r + "," + r + ")")
		}
		add("(" + r + ")(a)")
		add("(" + r + ")()")
		add("for " + r + " {1}")
		add("for i = " + r + " {i}")
		add("if " + r + " {1} else {2}")
		add("func f(u){u}; f(" + r + ")")
		add("func f(u,..){..}; f(a," + r + ")")
		add("m=macro(u){quote(unquote(u)+1)}; m(" + r + ")")
		add("catch(" + r + "+1)")
		add("return " + r)
	}
	for _, b := range []string{"len", "first", "rest", "print", "println", "log", "error", "catch", "quote", "unquote", "del"} {
		add(b + "()")
	}
	ps = append(ps,
		"func(y){y}()", "func(y){y}(1,2)", "func(y,..){..}(a,[1,2])", "func(y,..){..}()",
		"for i = 0:(c&3) {i}", "for i = (a&3):(b&7) {i}", "for (c&3) {a/b}", "for i=a {break}", "for i=[a,b] {continue}",
		"func f(n){if n<=0 {return 0}; f(n-1)}; f(c&63)", "func f(n){f(n+1)}; f(a)",
		"func f(u,v,w,z,t){u+v+w+z+t}; f(a,b,c,a,b)",
		"func f(k1,k2,k3,k4,k5,k6,k7,k8,k9,k10){k1+k10}; f(a,b,c,a,b,c,a,b,c,a)",
		"m=macro(u,v){quote(if unquote(u) {unquote(v)})}; m(p, a/b)",
		"m=macro(){quote(1)}; m()", "m=macro(u){u}; m(a)", "m=macro(u){quote(unquote(u))}; func g(t){t+1}; m(g(a))",
		"quote(unquote(a/b))", "unquote(a)", "quote(a)+quote(b)", "self", "self()", "info", "info.globals", "..", "a.b", "a..b",
		"x%y", "x/y", "-x", "a*b", "a-b", "a+b", "[a:b]", "{a:b}[a]", "{x:1,y:2}", "{[a]:1,[b]:2}", "{p:1,q:2,nil:3}",
		"A=[0,1,2,3,4,5,6,7,8]; A[a]=b", "B={1:1,2:2,3:3,4:4,5:5}; B[a]=b", "PI=a", "func F(){1}; F=a",
		"a=b; a++; a", "s[a]", "s[a:b]", "s+s", "s*(c&3)", "s*a", "[a,b]*(c&3)", "[a,b]*c", "[]*a", "{a:b}+{b:c}",
		"first(s)", "rest(s)", "len(s)", "for c1 = s {c1}", "for kv = {a:b,c:a} {kv}",
	)
	// control-flow objects (break, continue, return) in every expression position
	for _, ctl := range []string{"break", "continue", "return", "return a"} {
		for _, shape := range []string{"[%]", "[%]==[%]", "f(%)", "{1:%}", "{%:1}", "(%)+1", "1+(%)", "-(%)", "!(%)", "(%)[0]", "[1,2][%]", "v=%; v", "len(%)", "print(%)", "catch(%)", "quote(%)",
			"catch(%) == catch(%)", "v=catch(%); v == v", "m={}; m[catch(%)]=1", "{catch(%): 1}", "[catch(%)] == [catch(%)]", "catch(%) < catch(%)", "v=catch(if true {%}); v == v",
			"for 2 {[%]}", "for i=2 {v=[%]}; v", "func(){[%]}()", "func(){(%)+1}()", "if % {1} else {2}", "for % {1}", "for i = % {i}", "(%)==(%)", "(%)<(%)", "{1:[%]}[1]", "func g(u){u}; g([%])", "(%).k", "(%)(1)", "% ; 1"} {
			add("func f(u){u}; " + strings.ReplaceAll(shape, "%", ctl))
		}
	}
	// quote / unquote / macro in unusual positions, over every operand kind
	for _, r := range kindExprs {
		add("quote(unquote(" + r + "))")
		add("unquote(" + r + ")")
		add("quote(unquote(quote(" + r + ")))")
		add("m=macro(u){unquote(u)}; m(" + r + ")")
		add("m=macro(u){1+1; quote(unquote(u))}; m(" + r + ")")
		add("m=macro(u){" + r + "}; m(1)")
		add("v=" + r + "; g=func(){del(v)}; f=func(){w=v; g(); v}; f()")
		add("v=" + r + "; g=func(){del(v)}; f=func(){g(); v}; f()")
		add("v=" + r + "; f=func(){w=v; del(v); [w, v]}; f()")
		add("func(n){g=func(n){n}; g(n)}(" + r + ")")
		add("func(n){(n=>n)(n)}(" + r + ")")
		add("func(n){for n = 2 {n}}(" + r + ")")
		add("func(n){func(m){func(n){n+m}(m)}(n)}(" + r + ")")
	}
	// containers with keys / values / elements of every kind as arguments of a user function (the call goes through the memoization cache)
	for _, r := range kindExprs {
		for _, shape := range []string{"{%:1}", "{1:%}", "[%]", "[{%:1}]", "{1:{%:2}}", "{%:1, 2:%}", "[[%], {1:[%]}]"} {
			arg := strings.ReplaceAll(shape, "%", r)
			add("func f(u){len(u)}; f(" + arg + ")")
			add("(u => len(u))(" + arg + "); (u => len(u))(" + arg + ")")
			add("func f(u,v,w){len(u)}; f(1, " + arg + ", " + arg + ")")
		}
	}
	// loops inside loops whose error is swallowed; function bodies that are only comments
	ps = append(ps,
		"for i=2 {catch(for j=2 {a/(b-b)})}", "for i=2 {log(for j=2 {1/0})}", "for i=2 {for j=2 {catch(for k=2 {[1][5]})}}", "func f(n){for i=n {catch(for j=2 {error(\"x\")})}}; f(c&3)",
		"for i=2 {catch(for j=[1,2] {1/0})}", "for i=2 {x = catch(for j=2 {break})}", "for i=3 {catch(for j=2 {if j==1 {return 5}})}",
		"f = () => {/* c */}; f()", "(() => {// c\n})()", "func(){/* c */}()", "f = x => {/* c */ /* d */}; f(1)", "func g(){// only\n}; g()", "m = macro(u){/* c */}; m(1)", "f = () => {}; f()",
	)
	ps = append(ps,
		"v=[1,2]; v[1]=macro(x){x}", "v={}; v.k=macro(){1}", "func f(u){u}; f(macro(x){x})", "[macro(x){x}]", "macro(x){x}(1)", "m=macro(){}; m()", "m=macro(u){}; m(a)", "macro(x){x}",
		"m=macro(u){quote(unquote(u))}; m=1; m", "m=macro(u){quote(unquote(v))}; m(a)", "m=macro(u){quote(unquote(u, u))}; m(a)", "m=macro(u){quote()}; m(a)", "m=macro(u){quote(1, 2)}; m(a)",
		"m=macro(u){m(u)}; m(a)", "m=macro(u){quote(m(unquote(u)))}; m(a)", "if p {m=macro(u){quote(1)}}; m(a)", "func f(){m=macro(u){quote(2)}; m(1)}; f()",
		"func f(n){n=n+1; g=func(){n}; n++; g()}; f(a)", "func f(n,m){g=func(m){h=func(n){n+m}; h(m)}; g(n)}; f(a,b)", "func f(n){for i=2 {g=func(i){i+n}; g(n)}}; f(a)",
		"v=1; del(v); v", "func f(){del(f); f}; f()", "v=a; r=func(){v}; del(v); r()", "v=a; func f(){w=v; del(v); w+1}; f(); f()",
	)
	return ps
}

// extension functions applied to every kind of value (the extensions package's harness runs extensions.Init)
var c07ExtNames = []string{"pow", "sprintf", "sin", "cos", "tan", "ln", "sqrt", "exp", "asin", "acos", "atan", "log10", "floor", "ceil", "trunc", "round", "atan2",
	"type", "eval", "unjson", "format", "defun", "runes", "rune_len", "width", "split", "join", "trim", "trim_left", "trim_right",
	"min", "max", "int", "load", "save", "regexp", "regsub", "base64", "json", "eof", "image.new", "image.set", "image.set_ycbcr"}

func c07ExtPrograms(tier string) []string {
	kinds := []string{"a", "x", "p", "nil", `"ab"`, `""`, "[]", "[a,1]", "{}", `{"k":a}`, "func(y){y}", "-1", "0", `"%d %s %v"`, `"("`, `"1+"`, `"{\"k\":[1,2.5,null]}"`}
	small := []string{"a", "x", `"ab"`, "nil", "[a,1]", `"("`, "0", "p"}
	var ps []string
	for _, f := range c07ExtNames {
		ps = append(ps, f+"()")
		for _, k := range kinds {
			ps = append(ps, f+"("+k+")")
		}
		for i, k1 := range small {
			for j, k2 := range small {
				if tier != "thorough" && (i+j)%2 == 1 {
					continue
				}
				ps = append(ps, f+"("+k1+", "+k2+")")
			}
		}
	}
	for _, f := range []string{"sprintf", "split", "min", "max", "join"} {
		for _, k1 := range small[:5] {
			for _, k2 := range small[:5] {
				for _, k3 := range small[:5] {
					ps = append(ps, f+"("+k1+", "+k2+", "+k3+")")
				}
			}
		}
	}
	ps = append(ps, `sprintf("%d %s %v %5.2f %q %x %c %U %t %p %%", a, "s", x, x, "q", a, a, a, p, a)`, `sprintf("%*d", a, b)`, `sprintf("%[3]d", a)`, `sprintf("%!", a)`,
		`eval("1+")`, `eval("a+b")`, `eval("eval(\"1\")")`, `unjson("[1,{\"a\":null}]")`, `unjson("{")`, `format(func(q){q+a})`,
		`defun("f", ["u"], [quote(u+1)])`, `defun(a, x, p)`, `int(x)`, `int("0x1F")`, `int("9223372036854775808")`, `round(x)`, `trunc(x)`, `pow(x, y)`, `pow(a, b)`, `atan2(x, y)`,
		`min()`, `max(a)`, `min(a, x, "s", nil, [a])`, `split("a,b", "")`, `join([a, x, nil], ",")`, `join(["a", ["b"]], a)`, `runes("a\xffb", p)`, `width("\xff\xfe")`,
		`trim("ab", "")`, 
		`load("../x")`, `save(a)`, `type(type)`, `type(quote(a))`,
		`regexp("a+", "baab")`, `regexp("a+", "baab", p)`, `regexp("(", "b")`, `regexp("(a)(b)?", "xab", true)`, `regsub("(a)(b)?", "xab", "$2$1")`, `regsub("a", "b")`, `regsub("[", "b", "c")`,
		`base64("\xff\x00a")`, `base64("")`, `json({"k":[a,nil,p,x]})`, `json(func(q){q})`, `json({1:2,"a":{[1]:2}})`, `eof()`,
		`image.new("i", a, b)`, `image.new("i", 4, 4); image.set("i", a, b, [1, 2, 3])`, `image.new("i", 4, 4); image.set("i", 1, 1, [a, b, 3, 4])`, `image.set("nope", 1, 1, [1, 2, 3])`,
		`image.new("i", 4, 4); image.set("i", 1, 1, [1, 2])`, `image.new("i", 4, 4); image.set("i", 1, 1, ["a", 2, 3])`, `image.new("i", 4, 4); image.set("i", 1, 1, [])`, `image.new("i", 4, 4); image.set_ycbcr("i", a, 1, [a, b, 3])`,
		`image.new("i", 2, 2); image.set_hsl("i", 0, 0, [x, 0.5, 0.5])`, `image.new("i", 2, 2); image.set_hsl("i", 0, 0, [1, 2])`)
	return ps
}

func init() {
	register(&PropSpec{
		ID: "C07",
		Jobs: func(tier string, seed int64) []Job {
			var jobs []Job
			progs := c07Programs(tier)
			for _, p := range progs {
				jobs = append(jobs, Job{Prop: "C07", Pkg: "eval", Func: "VerifNoPanic", Args: []string{p, "reg"}, MaxDec: 600})
			}
			if tier == "thorough" {
				for _, p := range progs {
					jobs = append(jobs, Job{Prop: "C07", Pkg: "eval", Func: "VerifNoPanic", Args: []string{p, "noreg"}, MaxDec: 600})
				}
			} else {
				for i, p := range progs {
					if i%7 == 0 {
						jobs = append(jobs, Job{Prop: "C07", Pkg: "eval", Func: "VerifNoPanic", Args: []string{p, "noreg"}, MaxDec: 600})
					}
				}
			}
			for _, p := range c07ExtPrograms(tier) {
				jobs = append(jobs, Job{Prop: "C07", Pkg: "extensions", Func: "VerifExtNoPanic", Args: []string{p}, MaxDec: 300, MaxSteps: 6_000_000})
			}
			return jobs
		},
		Budget: map[string]time.Duration{"quick": 8 * time.Minute, "thorough": 60 * time.Minute},
		Reach:  []string{"value", "language-level error", "resource guard"},
		Bounds: map[string]interface{}{"skeletons": "every infix operator x every ordered pair of 14 operand kinds; every prefix/postfix operator, index, slice, dot, index-assignment, del, builtin (1 and 2 arguments), call, for, if, function/variadic/macro argument x every kind; plus a list of loop, recursion, macro and boundary programs (see engine/props_c07.go)",
			"extensions": "43 extension functions (math, sprintf, eval, unjson, format, defun, type, string functions, min/max, int, load/save restricted, regexp, regsub, base64, json, eof, image.new/set/set_ycbcr; the regexp, base64 and json packages are executed from their SSA on concrete patterns) applied to 0 arguments, to each of 17 kinds of value, to half of the ordered pairs of 8 kinds (all pairs thorough), 5 of them to all triples of 5 kinds, plus ~50 boundary calls; a, b all int64, x, y all float64, p both booleans; strings concrete; math functions on symbolic floats are uninterpreted; not included (they need package state the executor does not initialise or the real clock / processes): rand, json_go (reflection), time.*, sleep, read, exec, run, image drawing/vector/png functions",
			"values": "all int64 for a,b,c; all float64 for x,y; both booleans; all 2-byte strings for s",
			"depth":  "MaxDepth 60; loops whose trip count is symbolic are explored up to the executor's value-enumeration limit (64) and reported as bound-exceeded beyond"},
		Outside: []string{"programs deeper than one operator over the listed operand kinds", "byte-level mutations of the shipped examples"},
	})
}
