package main

import "time"

func c10Histories(tier string) [][]string {
	ok := []string{
		`println("one")`,
		`func sq(u){println("sq", u); u*u}; sq(3)`,
		`t=0; for i=3 {t=t+i; println(t)}; t`,
		`mk=func(k){func(){k=k+1; k}}; c1=mk(10); c1(); c1()`,
		`m={1:2}; m[3]=4; m`,
		`func fact(n){if n<=1 {return 1}; n*fact(n-1)}; fact(5)`,
		`sq(4)`,
		`for i=2 {for j=2 {println(i,j)}}`,
		`println(a+b)`,
		`u=a; n=b; println(u, n)`,
	}
	fail := []string{
		`!func e1(u){error("bad")}; func e2(u){1+e1(u)}; e2(a)`,
		`!for i=3 {if i==1 {error("x")}; i}`,
		`!func r(n){r(n+1)}; r(0)`,
		`!func pr(u){println("in pr"); r2(u)}; func r2(n){r2(n+1)}; pr(1)`,
		`!func dv(u){println("dv"); 10/u}; dv(a-a)`,
		`!for i=2 {func(){for j=2 {r3=func(n){r3(n+1)}; r3(0)}}()}`,
		`!undefined_name`,
		`![1,2,3][b:a][0]()`,
		// the failing call's parameters and locals carry the names of globals the later inputs read and write
		`!func e3(u, n, t){m := [u]; error("bad")}; e3("s", "n", "t")`,
		`!func r9(n){r9(n+1)}; for i = 3 {r9(i)}`,
		`!for j = 2 {for i = 2 {[1][i+5]}}`,
		`!mi = macro(u){ff = func(n){self(n+1)}; ff(0); quote(1)}; mo = macro(u){quote(mi(unquote(u)))}; mo(1)`,
		`!func e4(i){for 2 {e3b=func(u, n){error("inner")}; e3b(i, i)}}; e4("x")`,
	}
	var out [][]string
	for _, f := range fail {
		for i := 0; i < len(ok); i++ {
			for j := 0; j < len(ok); j++ {
				if tier != "thorough" && (i+j)%3 != 0 {
					continue
				}
				out = append(out, []string{ok[i], f, ok[j], ok[i]})
			}
		}
		// multiplicity and position
		out = append(out, []string{f, ok[0], f, f, ok[1], ok[6], f, ok[2]})
	}
	for _, f1 := range fail {
		for _, f2 := range fail {
			out = append(out, []string{ok[1], f1, f2, ok[6], ok[2], ok[7]})
		}
	}
	if tier == "thorough" {
		// three failures of different kinds in a row between every pair of succeeding inputs
		for i := 0; i < len(ok); i += 2 {
			for j := 1; j < len(ok); j += 3 {
				for k := 0; k+2 < len(fail); k++ {
					out = append(out, []string{ok[i], fail[k], fail[k+1], fail[k+2], ok[j], fail[(k+5)%len(fail)], ok[i], ok[j]})
				}
			}
		}
	}
	// what earlier inputs memoized stays memoized: log() lines are not replayed on a cache hit, so they show a lost cache
	// (only failing inputs that define nothing: redefining a function legitimately flushes the cache)
	for _, f1 := range []string{`!undefined_name`, `![1,2,3][b:a][0]()`, `!for i=3 {if i==1 {error("x")}; i}`, `!for j = 2 {for i = 2 {[1][i+5]}}`, `!(func(n){self(n+1)})(0)`, `!for i = 3 {(func(n){self(n+1)})(i)}`, `!(n => 10 / n)(a - a)`} {
		out = append(out, []string{`func lg(u){log("in lg", u); println("out", u); u * 2}`, `lg(3)`, f1, `lg(3)`, `lg(4)`, f1, `lg(4)`, `lg(3)`})
	}
	// definitions made between two failures, used after the second one
	for _, f1 := range fail {
		out = append(out, []string{ok[9], f1, `w=5; func dbl(z){z*2}`, fail[8], `println(w, dbl(4), u, n)`, fail[0], `println(w, dbl(w))`})
	}
	return out
}

func init() {
	register(&PropSpec{
		ID: "C10",
		Jobs: func(tier string, seed int64) []Job {
			var jobs []Job
			for _, h := range c10Histories(tier) {
				jobs = append(jobs, Job{Prop: "C10", Pkg: "repl", Func: "VerifSession", Args: h, MaxDec: 800})
			}
			return jobs
		},
		Budget: map[string]time.Duration{"quick": 6 * time.Minute, "thorough": 40 * time.Minute},
		Reach:  []string{"failing input failed", "failing input panicked"},
		Bounds: map[string]interface{}{"histories": "10 succeeding inputs (prints, function definitions and calls, loops, closures, map updates, recursion) and 12 failing ones (a panic and an error inside top-level counted loops, failing calls whose parameters and locals are named like globals, error in nested calls, error in a loop, depth overflow at top level / inside a function that printed / inside nested loops and lambdas, error after a print inside a function, unknown identifier, ill-typed call); every failing input between a third of the ordered pairs of succeeding inputs (all pairs thorough), repeated failures at several positions, every ordered pair of failing inputs in a row, definitions made between two failures and used after the second; after every input the state is also required to be back at the root scope with depth 0 and the session writer in place",
			"values": "a, b: all int64", "max_depth": 40},
		Assumptions: []string{"deadline failures are not modelled (context.WithTimeout is stubbed to its parent): covered for the evaluator by C09's cancellation lemma"},
		Outside:     []string{"timeouts inside the REPL", "longer histories"},
	})
}
