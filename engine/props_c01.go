package main

import (
	"strconv"
	"time"
)

// the driver's own precedence table (README order, low to high)
var c01Prec = map[string]int{
	"=": 1, ":=": 1, "||": 2, "&&": 3, ":": 3, "==": 5, "!=": 5, "<": 6, ">": 6, "<=": 6, ">=": 6,
	"+": 7, "-": 7, "|": 7, "^": 7, "*": 8, "%": 8, "&": 8, "<<": 8, ">>": 8, "/": 9,
}

func c01Jobs(tier string) []Job {
	var jobs []Job
	ev := func(f string, a ...string) {
		jobs = append(jobs, Job{Prop: "C01", Pkg: "eval", Func: f, Args: a, MaxDec: 800})
	}
	for _, op := range []string{"+", "-", "*", "/", "%", "<<", ">>", "&", "|", "^", "<", "<=", ">", ">=", "==", "!=", "neg", "not", "xorpre", "plus", "paren", "func", ":"} {
		ev("VerifIntOp", op, "reg")
		ev("VerifIntOp", op, "noreg")
	}
	for _, op := range []string{"+", "-", "*", "/", "neg"} {
		for _, k := range []string{"ff", "if", "fi"} {
			ev("VerifFloatOp", op, k)
		}
	}
	maxN := "10"
	if tier == "thorough" {
		maxN = "20"
	}
	for _, kind := range []string{"string", "array", "map"} {
		for _, form := range []string{"index", "slice", "open"} {
			ev("VerifIndex", kind, maxN, form)
		}
	}
	ev("VerifShortCircuit", "&&")
	ev("VerifShortCircuit", "||")
	// precedence and associativity: every ordered pair of binary operators
	ops := []string{"=", "||", "&&", "==", "!=", "<", ">", "<=", ">=", "+", "-", "|", "^", "*", "%", "&", "<<", ">>", "/"}
	inf := func(op, l, r string) string { return "(infix " + op + " " + l + " " + r + ")" }
	id := func(n string) string { return "(id " + n + ")" }
	sh := func(stmt string) string { return "(block " + stmt + ")" }
	ps := func(text, shape string) {
		jobs = append(jobs, Job{Prop: "C01", Pkg: "parser", Func: "VerifParseShape", Args: []string{text, sh(shape)}})
	}
	for _, o1 := range ops {
		for _, o2 := range ops {
			var want string
			if c01Prec[o1] >= c01Prec[o2] {
				want = inf(o2, inf(o1, id("a"), id("b")), id("c"))
			} else {
				want = inf(o1, id("a"), inf(o2, id("b"), id("c")))
			}
			ps("a "+o1+" b "+o2+" c", want)
		}
		if o1 == "=" {
			continue
		}
		ps("-a "+o1+" b", inf(o1, "(prefix - "+id("a")+")", id("b")))
		ps("!a "+o1+" b", inf(o1, "(prefix ! "+id("a")+")", id("b")))
		ps("a "+o1+" b[c]", inf(o1, id("a"), "(index [ "+id("b")+" "+id("c")+")"))
		ps("a "+o1+" f(b)", inf(o1, id("a"), "(call "+id("f")+"( args "+id("b")+"))"))
		ps("a "+o1+" b.c", inf(o1, id("a"), "(index . "+id("b")+" "+id("c")+")"))
		ps("a++ "+o1+" b", inf(o1, "(postfix ++ a)", id("b")))
		ps("a "+o1+" -b", inf(o1, id("a"), "(prefix - "+id("b")+")"))
		ps("(a "+o1+" b)", inf(o1, id("a"), id("b")))
	}
	_ = strconv.Itoa
	// layer W: whole programs against the harness's independent reference evaluator
	for _, p := range c01WPrograms(tier) {
		for _, mode := range []string{"reg", "noreg"} {
			jobs = append(jobs, Job{Prop: "C01", Pkg: "eval", Func: "VerifRefEval", Args: []string{p.grol(), p.sexpr(), mode}, MaxDec: 1500})
		}
	}
	return jobs
}

func init() {
	register(&PropSpec{
		ID:        "C01",
		Jobs:      func(tier string, seed int64) []Job { return c01Jobs(tier) },
		Budget:    map[string]time.Duration{"quick": 8 * time.Minute, "thorough": 60 * time.Minute},
		TimeoutMs: map[string]int{"quick": 30000, "thorough": 120000},
		Reach:     []string{"parsed"},
		Bounds: map[string]interface{}{"operator_kernels": "every integer infix/prefix operator through the real evaluator for ALL int64 operand pairs (registers on and off): wrap-around + - *, truncated / and sign-of-dividend %, by-zero and negative shift counts are errors, << by >= 64 is 0, >> is logical, & | ^ ~, six comparisons, range construction for lengths 0..6; float + - * / and negation for ALL float64 pairs and Integer/Float mixes (FP theory); && || short-circuit observed through printing",
			"index_kernels": "X[i], X[l:r], X[l:] on a string, array and map of every length 0..10 (20 thorough) for ALL int64 i, l, r against the documented rule (negative from the end, out of range -> nil, bounds clamped, l>r -> error)",
			"precedence":    "every ordered pair of 19 binary operators in a OP1 b OP2 c against the driver's own precedence table and left associativity; each operator against prefix -, !, index, call, dot, postfix ++ and parentheses"},
		Assumptions: []string{"claimed in part: operator, index and precedence kernels of the reference semantics; whole-program agreement with an independent reference evaluator (layer W of the design) is not built"},
		Outside:     []string{"whole programs (control flow, scoping, closures, recursion, error/catch) against a reference evaluator", "float % (math.Mod uninterpreted)", "programs larger than the kernels"},
	})
}
