package main

import (
	"strconv"
	"time"
)

// the driver's own precedence table (README order, low to high)
var c01Prec = map[string]int{
	"=": 1, ":=": 1, "||": 2, "&&": 3, ":": 3, "==": 5, "!=": 5, "<": 6, ">": 6, "<=": 6, ">=": 6,
	"+": 7, "-": 7, "|": 7, "^": 7, "*": 8, "%": 8, "&": 8, "<<": 8, ">>": 8, "/": 9,
}

func c01Jobs(tier string) []Job {
	var jobs []Job
	ev := func(f string, a ...string) {
		jobs = append(jobs, Job{Prop: "C01", Pkg: "eval", Func: f, Args: a, MaxDec: 800})
	}
	for _, op := range []string{"+", "-", "*", "/", "%", "<<", ">>", "&", "|", "^", "<", "<=", ">", ">=", "==", "!=", "neg", "not", "xorpre", "plus", "paren", "func", ":"} {
		ev("VerifIntOp", op, "reg")
		ev("VerifIntOp", op, "noreg")
	}
	for _, op := range []string{"+", "-", "*", "/", "neg"} {
		for _, k := range []string{"ff", "if", "fi"} {
			ev("VerifFloatOp", op, k)
		}
	}
	maxN := "10"
	if tier == "thorough" {
		maxN = "20"
	}
	for _, kind := range []string{"string", "array", "map"} {
		for _, form := range []string{"index", "slice", "open"} {
			ev("VerifIndex", kind, maxN, form)
		}
	}
	ev("VerifShortCircuit", "&&")
	ev("VerifShortCircuit", "||")
	// precedence and associativity: every ordered pair of binary operators
	ops := []string{"=", "||", "&&", "==", "!=", "<", ">", "<=", ">=", "+", "-", "|", "^", "*", "%", "&", "<<", ">>", "/"}
	inf := func(op, l, r string) string { return "(infix " + op + " " + l + " " + r + ")" }
	id := func(n string) string { return "(id " + n + ")" }
	sh := func(stmt string) string { return "(block " + stmt + ")" }
	ps := func(text, shape string) {
		jobs = append(jobs, Job{Prop: "C01", Pkg: "parser", Func: "VerifParseShape", Args: []string{text, sh(shape)}})
	}
	for _, o1 := range ops {
		for _, o2 := range ops {
			var want string
			if c01Prec[o1] >= c01Prec[o2] {
				want = inf(o2, inf(o1, id("a"), id("b")), id("c"))
			} else {
				want = inf(o1, id("a"), inf(o2, id("b"), id("c")))
			}
			ps("a "+o1+" b "+o2+" c", want)
		}
		if o1 == "=" {
			continue
		}
		ps("-a "+o1+" b", inf(o1, "(prefix - "+id("a")+")", id("b")))
		ps("!a "+o1+" b", inf(o1, "(prefix ! "+id("a")+")", id("b")))
		ps("a "+o1+" b[c]", inf(o1, id("a"), "(index [ "+id("b")+" "+id("c")+")"))
		ps("a "+o1+" f(b)", inf(o1, id("a"), "(call "+id("f")+"( args "+id("b")+"))"))
		ps("a "+o1+" b.c", inf(o1, id("a"), "(index . "+id("b")+" "+id("c")+")"))
		ps("a++ "+o1+" b", inf(o1, "(postfix ++ a)", id("b")))
		ps("a "+o1+" -b", inf(o1, id("a"), "(prefix - "+id("b")+")"))
		ps("(a "+o1+" b)", inf(o1, id("a"), id("b")))
	}
	_ = strconv.Itoa
	// layer W: whole programs against the harness's independent reference evaluator
	for _, p := range c01WPrograms(tier) {
		for _, mode := range []string{"reg", "noreg"} {
			jobs = append(jobs, Job{Prop: "C01", Pkg: "eval", Func: "VerifRefEval", Args: []string{p.grol(), p.sexpr(), mode}, MaxDec: 1500})
		}
	}
	return jobs
}

func init() {
	register(&PropSpec{
		ID:        "C01",
		Jobs:      func(tier string, seed int64) []Job { return c01Jobs(tier) },
		Budget:    map[string]time.Duration{"quick": 8 * time.Minute, "thorough": 60 * time.Minute},
		TimeoutMs: map[string]int{"quick": 30000, "thorough": 120000},
		Reach:     []string{"parsed", "compared with the reference"},
		Bounds: map[string]interface{}{"operator_kernels": "every integer infix/prefix operator through the real evaluator for ALL int64 operand pairs (registers on and off): wrap-around + - *, truncated / and sign-of-dividend %, by-zero and negative shift counts are errors, << by >= 64 is 0, >> is logical, & | ^ ~, six comparisons, range construction for lengths 0..6; float + - * / and negation for ALL float64 pairs and Integer/Float mixes (FP theory); && || short-circuit observed through printing",
			"index_kernels": "X[i], X[l:r], X[l:] on a string, array and map of every length 0..10 (20 thorough) for ALL int64 i, l, r against the documented rule (negative from the end, out of range -> nil, bounds clamped, l>r -> error)",
			"whole_programs": "~90 programs x registers on/off against the independent reference evaluator, free integer variables a, b, c symbolic in (-1000, 1000)",
			"precedence":    "every ordered pair of 19 binary operators in a OP1 b OP2 c against the driver's own precedence table and left associativity; each operator against prefix -, !, index, call, dot, postfix ++ and parentheses"},
		Assumptions: []string{"the reference evaluator (harness/eval/refeval.go) fixes the documented semantics as read from README, tests/*.gr and eval_test.go; it declines (no verdict) outside that core"},
		Outside:     []string{"programs beyond the ~90 of layer W (a fixed list, not a grammar enumeration)", "float % (math.Mod uninterpreted)", "free variables outside (-1000, 1000) in layer W"},
	})
}
