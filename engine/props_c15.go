package main

import (
	"strings"
	"time"
)

var c15Programs = []string{
	`x = (1 + 2) * [3, 4][0]`, `func f(a, b) { if a < b { return a }; b }`, `m = {"k": [1, 2.5, "s"], 2: {3: 4}}`,
	`for i = 3 { println(i, "x") /* c */ }`, `y = "a string" + "q\"uoted" + ` + "`raw`", `z = f(1, g(2, 3), [4])`,
	`if a && (b || c) { d } else if e { f } else { g }`, `l = (a, b) => { a + b }`, `m2 = macro(x) { quote(unquote(x) + 1) }`,
	`a = b[1:2] + c[-1] - d.e.f`, `p = !q == -r * +s`, `n = 1 : 10`, `t = x => y => x + y`,
	// strings and comments that start a statement, directly or after another statement
	`"a string statement"`, "`a raw one`", `a = 1; "second statement"`, `a = 1 "glued string"`, "println(1)\n`raw after a line`", `/*/ tricky */ a`, `a = 1 /*/ c */`, `/* only */`,
	"s = `Hello, world`", "println(`it's (a) b`)", "f(`a) b`, 1)", "x = [`]`, `}`]", "{`k)`: `v(`}", `t = "it's (a) b" + "c]"`,
	`return`, "x = 1\nreturn", "if x { return }\nprintln(x)\nreturn", `break`, "x = 1\ncontinue",
	`m[b = 1 : 3]`, `x[a || 1 : 2] + y[c := 0 : 1]`, `z[1 : ]`,
	`if a {"in a block"}`, `f = () => "lambda value"`, `["in", "a list"]`, `{"k": "v"}`, `return "s"`,
}

// c15Cuts returns prefixes of prog that end at a token boundary inside an open ( [ { or string/comment, or right
// after a binary operator - classified by this scanner, which is independent of grol's lexer.
func c15Cuts(prog string) []string {
	var cuts []string
	depth := 0
	i := 0
	binary := map[string]bool{"+": true, "-": true, "*": true, "/": true, "%": true, "<": true, ">": true, "<=": true, ">=": true, "==": true, "!=": true,
		"&&": true, "||": true, "&": true, "|": true, "^": true, "<<": true, ">>": true, "=": true, ":=": true, ",": false}
	isWord := func(c byte) bool {
		return c == '_' || c >= '0' && c <= '9' || c >= 'a' && c <= 'z' || c >= 'A' && c <= 'Z' || c == '.'
	}
	for i < len(prog) {
		c := prog[i]
		switch {
		case c == ' ' || c == '\n' || c == '\t':
			i++
			continue
		case c == '"' || c == '`':
			j := i + 1
			for j < len(prog) && prog[j] != c {
				if c == '"' && prog[j] == '\\' {
					j++
				}
				j++
			}
			// cuts inside the string literal
			for k := i + 1; k <= j && k < len(prog); k += 2 {
				if c == '"' && prog[k-1] == '\\' {
					continue
				}
				cuts = append(cuts, prog[:k])
			}
			i = j + 1
		case c == '/' && i+1 < len(prog) && prog[i+1] == '*':
			j := strings.Index(prog[i+2:], "*/")
			end := len(prog)
			if j >= 0 {
				end = i + 2 + j + 2
			}
			for k := i + 2; k < end-1; k += 2 {
				cuts = append(cuts, prog[:k])
			}
			i = end
		case isWord(c):
			j := i
			for j < len(prog) && isWord(prog[j]) {
				j++
			}
			i = j
		default:
			tok := string(c)
			if i+1 < len(prog) {
				two := prog[i : i+2]
				switch two {
				case "<=", ">=", "==", "!=", "&&", "||", "<<", ">>", ":=", "=>", "++", "--":
					tok = two
				}
			}
			i += len(tok)
			switch tok {
			case "(", "[", "{":
				depth++
			case ")", "]", "}":
				depth--
			}
			if binary[tok] && depth == 0 {
				cuts = append(cuts, prog[:i])
				continue
			}
		}
		if depth > 0 {
			cuts = append(cuts, prog[:i])
		}
	}
	return cuts
}

var c15Scripts = [][]string{
	{`x = a`, `println(x)`, `y = x + b`, `println(y, x)`},
	{`func f(n) { n * 2 }`, `println(f(a))`, `func f(n) { n + 1 }`, `println(f(a))`},
	{`m = macro(x) { quote(unquote(x) + unquote(x)) }`, `println(m(a))`, `println(m(b + 1))`},
	{`t = 0`, `for i = 3 { t = t + i }`, `println(t)`, `t`},
	{`c = [a, b]`, `c[0] = 5`, `println(c)`, `d = c + [1]`, `println(len(d))`},
	{`g = func(k) { func() { k = k + 1; k } }`, `h = g(a)`, `println(h())`, `println(h())`},
	{`e1 = 10 / (a - a)`, `println("after")`, `v = 3`},
	{`K = a`, `K = b`, `println(K)`},
	{`p = {1: a}`, `p[2] = b`, `del(p[1])`, `println(p)`},
	{`func r(n) { if n <= 0 { return 0 }; n + r(n - 1) }`, `println(r(4))`, `w = r(3)`},
	{`s = "x"`, `s = s * 3`, `println(s)`, `println(len(s))`},
	{`inc = macro(u) { quote(unquote(u) + 1) }`, `dbl = macro(u) { quote(unquote(u) * 2) }`, `neg = macro(u) { quote(-unquote(u)) }`, `println(inc(a), dbl(b), neg(a))`},
	{`func g9(x) { x + 1 }`, `func f9(x) { g9(x) * 2 }`, `println(f9(a))`, `func g9(x) { x + 10 }`, `println(f9(a))`},
	{`h9 = x => x + 1`, `k9 = x => h9(x) * 2`, `println(k9(b))`, `h9 = x => x - 1`, `println(k9(b))`, `println(k9(a))`},
	{`m1 = macro() { quote(1) }`, `m2 = macro() { quote(2) }`, `z = m1() + m2()`, `println(z)`},
	{`if a < b { println("lt") } else { println("ge") }`, `q = a < b`, `println(q)`},
}

func init() {
	register(&PropSpec{
		ID: "C15",
		Jobs: func(tier string, seed int64) []Job {
			var jobs []Job
			// (1) same tree in both modes: arbitrary bytes after contexts and in seed windows
			for n := 0; n <= 2; n++ {
				jobs = append(jobs, Job{Prop: "C15", Pkg: "parser", Func: "VerifModes", Args: []string{strings.Repeat("@", n)}})
			}
			for _, c := range c08Contexts {
				jobs = append(jobs, Job{Prop: "C15", Pkg: "parser", Func: "VerifModes", Args: []string{c + "@"}})
				if tier == "thorough" {
					jobs = append(jobs, Job{Prop: "C15", Pkg: "parser", Func: "VerifModes", Args: []string{c + "@@"}})
				}
			}
			for _, t := range c02Templates(tier) {
				if strings.Contains(t, "@") || tier == "thorough" || len(t)%4 == 0 {
					jobs = append(jobs, Job{Prop: "C15", Pkg: "parser", Func: "VerifModes", Args: []string{t}})
				}
			}
			for _, p := range c15Programs {
				jobs = append(jobs, Job{Prop: "C15", Pkg: "parser", Func: "VerifModes", Args: []string{p, "complete"}})
				jobs = append(jobs, Job{Prop: "C15", Pkg: "parser", Func: "VerifModes", Args: []string{p + "\n", "complete"}})
				// (2) every cut inside an open construct
				for _, cut := range c15Cuts(p) {
					jobs = append(jobs, Job{Prop: "C15", Pkg: "parser", Func: "VerifContinuation", Args: []string{cut}})
				}
			}
			// (3) every split of a script into consecutive chunks
			for _, s := range c15Scripts {
				jobs = append(jobs, Job{Prop: "C15", Pkg: "repl", Func: "VerifIncremental", Args: s, MaxDec: 800})
			}
			return jobs
		},
		Budget: map[string]time.Duration{"quick": 8 * time.Minute, "thorough": 60 * time.Minute},
		Reach:  []string{"line mode accepts", "prefix parsed", "script split"},
		Bounds: map[string]interface{}{"same_tree": "all byte strings of length 0..2; 45 contexts + 1 arbitrary byte (2 thorough); the symbolic-byte skeletons of C02 and a quarter of its concrete ones (all thorough); 13 complete programs",
			"continuation": "13 programs, every cut at a token boundary inside an open ( [ {, inside a string or block comment (every other byte), or right after a binary operator, as classified by the driver's own scanner (bounded enumeration: the solver has no part in this half)",
			"incremental":  "14 scripts of 3-5 top-level statements (incl. adjacent macro definitions) (functions and redefinition, macros before use, loops, containers, closures, an erroring statement, constants, recursion) x every split into consecutive chunks, for all int64 a, b"},
		Outside: []string{"programs beyond the listed ones", "top-level return (excluded by the property)"},
	})
}
