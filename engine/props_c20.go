package main

import "time"

func init() {
	register(&PropSpec{
		ID: "C20",
		Jobs: func(tier string, seed int64) []Job {
			j := func(f string, a ...string) Job { return Job{Prop: "C20", Pkg: "trie", Func: f, Args: a} }
			jobs := []Job{
				j("VerifTrieSet", "2", "2", "3", "ab"),
				j("VerifTrieSet", "3", "2", "2", "ab"),
				j("VerifTrieSet", "2", "2", "2", "edge"),
				j("VerifTrieSet", "1", "3", "3", "ab"),
				j("VerifTrieSet", "2", "3", "3", "ab"),
			}
			if tier == "thorough" {
				jobs = append(jobs,
					j("VerifTrieSet", "3", "3", "3", "ab"),
					j("VerifTrieSet", "3", "2", "2", "edge"),
					j("VerifTrieSet", "4", "2", "2", "ab"),
					j("VerifTrieSet", "4", "3", "3", "ab"))
			}
			jobs = append(jobs, Job{Prop: "C20", Pkg: "repl", Func: "VerifCompletion", Args: []string{"2", "2", "2"}})
			jobs = append(jobs, Job{Prop: "C20", Pkg: "repl", Func: "VerifCompletion", Args: []string{"2", "2", "3"}})
			// what the interpreter registers for completion: definitions, redefinitions, rejected assignments, deletions
			for _, sess := range [][]string{
				{"x1,f1,y1,zz", "x1 = a", "func f1(u){u}", "y1 = [x1]"},
				{"x1,f1", "x1 = 1; x1 = 2", "f1 = u => u"},
				{"sin,LIMIT,q1", "sin = 1", "LIMIT = 10", "LIMIT = func(){3}", "q1 = sin(1.)"},
				{"K1,k2", "K1 = a", "K1 = a + 1", "k2 = K1"},
				{"g1,h1", "func g1(){h1 = 1}", "g1()"},
				{"p1,p2", "if a > 0 {p1 = 1} else {p2 = 2}"},
				{"v1,w1", "for v1 = 3 {w1 = v1}"},
				{"e1,e2", "e1 = 1 + nosuch", "e2 = error(\"x\")"},
				{"m1,m2", "m1 = macro(u){quote(unquote(u))}", "m2 = m1(5)"},
				{"t1", "t1 = 1", "func t1b(){t1}", "t1 = \"s\""},
			} {
				jobs = append(jobs, Job{Prop: "C20", Pkg: "repl", Func: "VerifCompletionIds", Args: sess, MaxDec: 400})
			}
			return jobs
		},
		Budget:  map[string]time.Duration{"quick": 4 * time.Minute, "thorough": 40 * time.Minute},
		Reach:   []string{"non-empty prefix result", "several completions", "completion with text after the cursor", "defined name probed", "undefined name probed"},
		Bounds:  map[string]interface{}{"words": "<=3 inserted words of length 0..2 and 2 words of length 0..3 (thorough: 3 and 4 words of length 0..3, ~760 000 paths for the largest), every insertion order", "registration": "10 sessions (definitions, functions, redefinitions, assignments rejected because the name is an extension or a bound constant, definitions inside functions / branches / loops, failing inputs, macros): after each, every probed name is offered exactly when it is a top-level binding, functions with ( and variables with a space", "cursor": "any position in a typed line of up to 3 bytes; the text after the cursor must be kept", "alphabets": "{a,b} and {a,0x00,0xff} (bytes symbolic under an alphabet assumption)", "query": "length 0..3"},
		Outside: []string{"words longer than 3 bytes, more than 4 words, bytes outside the two alphabets (each symbolic byte forks once per alphabet member in children[char])"},
	})
}
