package main

import "time"

func init() {
	register(&PropSpec{
		ID: "C20",
		Jobs: func(tier string, seed int64) []Job {
			j := func(f string, a ...string) Job { return Job{Prop: "C20", Pkg: "trie", Func: f, Args: a} }
			jobs := []Job{
				j("VerifTrieSet", "2", "2", "3", "ab"),
				j("VerifTrieSet", "3", "2", "2", "ab"),
				j("VerifTrieSet", "2", "2", "2", "edge"),
				j("VerifTrieSet", "1", "3", "3", "ab"),
				j("VerifTrieSet", "2", "3", "3", "ab"),
			}
			if tier == "thorough" {
				jobs = append(jobs,
					j("VerifTrieSet", "3", "3", "3", "ab"),
					j("VerifTrieSet", "3", "2", "2", "edge"),
					j("VerifTrieSet", "4", "2", "2", "ab"))
			}
			jobs = append(jobs, Job{Prop: "C20", Pkg: "repl", Func: "VerifCompletion", Args: []string{"2", "2", "2"}})
			return jobs
		},
		Budget:  map[string]time.Duration{"quick": 4 * time.Minute, "thorough": 40 * time.Minute},
		Reach:   []string{"non-empty prefix result", "several completions"},
		Bounds:  map[string]interface{}{"words": "<=3 inserted words of length 0..2 and 2 words of length 0..3 (thorough: 3 words of length 0..3, 4 of length 0..2), every insertion order", "alphabets": "{a,b} and {a,0x00,0xff} (bytes symbolic under an alphabet assumption)", "query": "length 0..3"},
		Outside: []string{"words longer than 3 bytes, more than 4 words, bytes outside the two alphabets (each symbolic byte forks once per alphabet member in children[char])"},
	})
}
