package main

import (
	"context"
	"fmt"
	"os"
	"os/exec"
	"path/filepath"
	"strings"
	"sync"
	"time"
)

// crossCheck re-decides the sampled queries (self-contained scripts regenerated from this run's encoding) with the
// other installed solvers and compares the verdicts with the one the run relied on.
func crossCheck(id string, samples []xSample) map[string]interface{} {
	type other struct {
		name string
		args []string
		pre  string
	}
	var others []other
	if p, err := exec.LookPath("z3-new"); err == nil {
		others = append(others, other{"z3-new (5.x)", []string{p, "-in", "-T:20"}, ""})
	}
	if p, err := exec.LookPath("cvc5"); err == nil {
		others = append(others, other{"cvc5", []string{p, "--lang=smt2", "--tlimit=20000"}, "(set-logic ALL)\n"})
	}
	res := map[string]interface{}{"sampled_queries": len(samples), "primary": "z3 4.8.12",
		"sampling": "per worker: queries number 4, 40, 400, 4000, 40000, 400000 and the slowest decided query over 300 ms"}
	if len(samples) == 0 || len(others) == 0 {
		res["note"] = "nothing to compare (no samples or no second solver on PATH)"
		return res
	}
	nfp := 0
	for _, s := range samples {
		if s.FP {
			nfp++
		}
	}
	res["sampled_with_floating_point"] = nfp
	verd := func(o other, script string) int {
		ctx, cancel := context.WithTimeout(context.Background(), 30*time.Second)
		defer cancel()
		cmd := exec.CommandContext(ctx, o.args[0], o.args[1:]...)
		cmd.Stdin = strings.NewReader(o.pre + script)
		out, _ := cmd.CombinedOutput()
		txt := string(out)
		if strings.Contains(txt, "(error") {
			return -2
		}
		for _, l := range strings.Split(txt, "\n") {
			switch strings.TrimSpace(l) {
			case "sat":
				return 1
			case "unsat":
				return 0
			}
		}
		return -1
	}
	var mu sync.Mutex
	var wg sync.WaitGroup
	sem := make(chan bool, 12)
	per := map[string]map[string]int{}
	for _, o := range others {
		per[o.name] = map[string]int{}
	}
	var disagreements []string
	for i, s := range samples {
		for _, o := range others {
			wg.Add(1)
			go func(i int, s xSample, o other) {
				defer wg.Done()
				sem <- true
				v := verd(o, s.Script)
				<-sem
				mu.Lock()
				defer mu.Unlock()
				switch {
				case v == -2:
					per[o.name]["rejected_script"]++
				case v == -1 || s.Verdict == -1:
					per[o.name]["unknown_or_timeout"]++
				case v == s.Verdict:
					per[o.name]["agree"]++
				default:
					per[o.name]["disagree"]++
					f := filepath.Join(outDir("replays"), fmt.Sprintf("%s-solver-disagreement-%d.smt2", id, i))
					os.WriteFile(f, []byte(fmt.Sprintf("; z3 4.8.12 verdict %d, %s verdict %d\n%s", s.Verdict, o.name, v, s.Script)), 0o644)
					disagreements = append(disagreements, f)
				}
			}(i, s, o)
		}
	}
	wg.Wait()
	res["per_solver"] = per
	res["disagreements"] = disagreements
	for _, f := range disagreements {
		fmt.Printf("SOLVER-DISAGREEMENT property=%s script=%s (verdicts of this run are not to be trusted until resolved)\n", id, f)
	}
	return res
}
