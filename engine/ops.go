package main

import (
	"fmt"
	"go/token"
	"go/types"
	"math"
	"unicode/utf8"

	"golang.org/x/tools/go/ssa"
)

// ---- scalar helpers

func (x *Exec) term(i Int) *Term {
	if i.Atom != 0 {
		unsupported("byte-level operation on an atom (text of a symbolic number)")
	}
	if i.S != nil {
		return i.S
	}
	return x.tt.Const(i.W, i.C)
}
func (x *Exec) mkInt(w int, signed bool, t *Term) Int {
	if t.IsConst() {
		return Int{W: w, Signed: signed, C: t.K}
	}
	return Int{W: w, Signed: signed, S: t}
}
func (x *Exec) bterm(b Bool) *Term {
	if b.S != nil {
		return b.S
	}
	return x.tt.BoolConst(b.C)
}
func (x *Exec) mkBool(t *Term) Bool {
	if t.IsConst() {
		return Bool{C: t.K == 1}
	}
	return Bool{S: t}
}
func (x *Exec) fterm(f Float) *Term {
	if f.S != nil {
		return f.S
	}
	return x.tt.FConst(f.C)
}
func (x *Exec) mkFloat(t *Term, f32 bool) Float {
	if f32 {
		t = x.tt.FToF32(t)
	}
	if t.IsFConst() {
		return Float{C: math.Float64frombits(t.K), F32: f32}
	}
	return Float{S: t, F32: f32}
}

// ---- strings

func (x *Exec) strByte(s Str, i int) Int {
	if s.Sym != nil {
		return s.Sym[i]
	}
	return Int{W: 8, C: uint64(s.S[i])}
}
func (x *Exec) strSlice(s Str, lo, hi int) Str {
	if s.Sym != nil {
		return normStr(Str{Sym: s.Sym[lo:hi:hi]})
	}
	return Str{S: s.S[lo:hi]}
}
func normStr(s Str) Str {
	if s.Sym == nil {
		return s
	}
	for _, b := range s.Sym {
		if b.S != nil {
			return s
		}
	}
	bs := make([]byte, len(s.Sym))
	for i, b := range s.Sym {
		bs[i] = byte(b.C)
	}
	return Str{S: string(bs)}
}
func strBytes(s Str) []Int {
	if s.Sym != nil {
		return s.Sym
	}
	r := make([]Int, len(s.S))
	for i := 0; i < len(s.S); i++ {
		r[i] = Int{W: 8, C: uint64(s.S[i])}
	}
	return r
}
func (x *Exec) strConcat(a, b Str) Str {
	if a.Sym == nil && b.Sym == nil {
		return Str{S: a.S + b.S}
	}
	if a.Len() == 0 {
		return b
	}
	if b.Len() == 0 {
		return a
	}
	return normStr(Str{Sym: append(append(make([]Int, 0, a.Len()+b.Len()), strBytes(a)...), strBytes(b)...)})
}

func bytesToStr(d []Value) Str {
	bs := make([]Int, len(d))
	for i, e := range d {
		bs[i] = e.(Int)
	}
	if len(bs) == 0 {
		return Str{}
	}
	return normStr(Str{Sym: bs})
}

func strToBytes(s Str) []Value {
	bs := strBytes(s)
	d := make([]Value, len(bs))
	for i, e := range bs {
		d[i] = e
	}
	return d
}

// byteEq is the equality of two string elements (bytes or atoms).
func (x *Exec) byteEq(a, b Int) *Term {
	tt := x.tt
	if a.Atom != 0 || b.Atom != 0 {
		if a.Atom == b.Atom {
			switch a.Atom {
			case atomFlt:
				return tt.FSame(a.S, b.S)
			case atomQuo:
				// Quote is injective: equal texts iff equal byte strings
				if len(a.S.Args) != len(b.S.Args) {
					return tt.fls
				}
				r := tt.tru
				for i := range a.S.Args {
					r = tt.And(r, tt.Cmp(OpEq, a.S.Args[i], b.S.Args[i]))
				}
				return r
			}
			return tt.Cmp(OpEq, a.S, b.S)
		}
		panic(atomMismatch{})
	}
	return tt.Cmp(OpEq, x.term(a), x.term(b))
}

type atomMismatch struct{}

// strEq builds string equality; strings with atoms are compared position-wise when their structure matches.
func (x *Exec) strEq(a, b Str) *Term {
	tt := x.tt
	if a.Sym == nil && b.Sym == nil {
		return tt.BoolConst(a.S == b.S)
	}
	if a.HasAtom() || b.HasAtom() {
		return x.atomStrEq(a, b)
	}
	if a.Len() != b.Len() {
		return tt.fls
	}
	r := tt.tru
	for i := 0; i < a.Len(); i++ {
		r = tt.And(r, tt.Cmp(OpEq, x.term(x.strByte(a, i)), x.term(x.strByte(b, i))))
		if r.IsFalse() {
			return r
		}
	}
	return r
}

// eqTerm builds the equality of two values as a Bool term.
func (x *Exec) eqTerm(a, b Value) *Term {
	tt := x.tt
	switch a := a.(type) {
	case Int:
		return tt.Cmp(OpEq, x.term(a), x.term(b.(Int)))
	case Bool:
		return tt.BoolEq(x.bterm(a), x.bterm(b.(Bool)))
	case Float:
		return tt.FCmp(OpFEq, x.fterm(a), x.fterm(b.(Float)))
	case Str:
		return x.strEq(a, b.(Str))
	case Ptr:
		return tt.BoolConst(a.P == b.(Ptr).P)
	case Struct:
		bs := b.(Struct)
		r := tt.tru
		for i := range a {
			r = tt.And(r, x.eqTerm(a[i], bs[i]))
			if r.IsFalse() {
				return r
			}
		}
		return r
	case Array:
		bs := b.(Array)
		r := tt.tru
		for i := range a {
			r = tt.And(r, x.eqTerm(a[i], bs[i]))
			if r.IsFalse() {
				return r
			}
		}
		return r
	case Iface:
		bi := b.(Iface)
		if a.T == nil || bi.T == nil {
			return tt.BoolConst(a.T == nil && bi.T == nil)
		}
		if !x.identical(a.T, bi.T) {
			return tt.fls
		}
		if !types.Comparable(a.T) {
			goPanicf("runtime error: comparing uncomparable type %v", a.T)
		}
		return x.eqTerm(a.V, bi.V)
	case NilFunc:
		_, ok := b.(NilFunc)
		return tt.BoolConst(ok)
	case Func, *Closure, NativeFunc, NoopFunc:
		_, ok := b.(NilFunc)
		if !ok {
			unsupported("func comparison")
		}
		return tt.fls
	case Slice:
		return tt.BoolConst(a.Nil && b.(Slice).Nil && len(a.Data) == 0 && len(b.(Slice).Data) == 0)
	case Map:
		return tt.BoolConst(a.M == nil && b.(Map).M == nil)
	case nil:
		return tt.BoolConst(b == nil)
	case *iter:
		return tt.BoolConst(a == b)
	}
	panic(fmt.Sprintf("eqTerm: unsupported %T", a))
}

func (x *Exec) unop(in *ssa.UnOp, v Value) Value {
	switch in.Op {
	case token.MUL:
		p := v.(Ptr)
		if p.P == nil {
			goPanicf("invalid memory address or nil pointer dereference")
		}
		return copyVal(*p.P)
	case token.NOT:
		b := v.(Bool)
		if b.S == nil {
			return Bool{C: !b.C}
		}
		return x.mkBool(x.tt.Not(b.S))
	case token.SUB:
		if f, ok := v.(Float); ok {
			return x.mkFloat(x.tt.FNeg(x.fterm(f)), f.F32)
		}
		i := v.(Int)
		return x.mkInt(i.W, i.Signed, x.tt.BvNeg(x.term(i)))
	case token.XOR:
		i := v.(Int)
		return x.mkInt(i.W, i.Signed, x.tt.BvNot(x.term(i)))
	}
	unsupported("unop %s", in.Op)
	return nil
}

func (x *Exec) binop(op token.Token, a, b Value) Value {
	tt := x.tt
	switch av := a.(type) {
	case Int:
		bv := b.(Int)
		at, bt := x.term(av), x.term(bv)
		w, sg := av.W, av.Signed
		cmp := func(s, u Op, swap, neg bool) Value {
			o := u
			if sg {
				o = s
			}
			l, r := at, bt
			if swap {
				l, r = r, l
			}
			t := tt.Cmp(o, l, r)
			if neg {
				t = tt.Not(t)
			}
			return x.mkBool(t)
		}
		switch op {
		case token.ADD:
			return x.mkInt(w, sg, tt.Bin(OpBvAdd, at, bt))
		case token.SUB:
			return x.mkInt(w, sg, tt.Bin(OpBvSub, at, bt))
		case token.MUL:
			return x.mkInt(w, sg, tt.Bin(OpBvMul, at, bt))
		case token.AND:
			return x.mkInt(w, sg, tt.Bin(OpBvAnd, at, bt))
		case token.OR:
			return x.mkInt(w, sg, tt.Bin(OpBvOr, at, bt))
		case token.XOR:
			return x.mkInt(w, sg, tt.Bin(OpBvXor, at, bt))
		case token.AND_NOT:
			return x.mkInt(w, sg, tt.Bin(OpBvAnd, at, tt.BvNot(bt)))
		case token.QUO, token.REM:
			if x.branch(tt.Cmp(OpEq, bt, tt.Const(w, 0))) {
				goPanicf("integer divide by zero")
			}
			var o Op
			switch {
			case sg && op == token.QUO:
				o = OpBvSdiv
			case sg:
				o = OpBvSrem
			case op == token.QUO:
				o = OpBvUdiv
			default:
				o = OpBvUrem
			}
			return x.mkInt(w, sg, tt.Bin(o, at, bt))
		case token.SHL, token.SHR:
			if bv.Signed && x.branch(tt.Cmp(OpSlt, bt, tt.Const(bv.W, 0))) {
				goPanicf("negative shift amount")
			}
			cnt := tt.Resize(bt, 64, false)
			big := tt.Cmp(OpUle, tt.Const(64, uint64(w)), cnt)
			c2 := tt.Resize(cnt, w, false)
			var r *Term
			if op == token.SHL {
				r = tt.Ite(big, tt.Const(w, 0), tt.Bin(OpBvShl, at, c2))
			} else if sg {
				r = tt.Ite(big, tt.Bin(OpBvAshr, at, tt.Const(w, uint64(w-1))), tt.Bin(OpBvAshr, at, c2))
			} else {
				r = tt.Ite(big, tt.Const(w, 0), tt.Bin(OpBvLshr, at, c2))
			}
			return x.mkInt(w, sg, r)
		case token.EQL:
			return x.mkBool(tt.Cmp(OpEq, at, bt))
		case token.NEQ:
			return x.mkBool(tt.Not(tt.Cmp(OpEq, at, bt)))
		case token.LSS:
			return cmp(OpSlt, OpUlt, false, false)
		case token.LEQ:
			return cmp(OpSle, OpUle, false, false)
		case token.GTR:
			return cmp(OpSlt, OpUlt, true, false)
		case token.GEQ:
			return cmp(OpSle, OpUle, true, false)
		}
	case Float:
		bv := b.(Float)
		at, bt := x.fterm(av), x.fterm(bv)
		switch op {
		case token.ADD:
			return x.mkFloat(tt.FBin(OpFAdd, at, bt), av.F32)
		case token.SUB:
			return x.mkFloat(tt.FBin(OpFSub, at, bt), av.F32)
		case token.MUL:
			return x.mkFloat(tt.FBin(OpFMul, at, bt), av.F32)
		case token.QUO:
			return x.mkFloat(tt.FBin(OpFDiv, at, bt), av.F32)
		case token.EQL:
			return x.mkBool(tt.FCmp(OpFEq, at, bt))
		case token.NEQ:
			return x.mkBool(tt.Not(tt.FCmp(OpFEq, at, bt)))
		case token.LSS:
			return x.mkBool(tt.FCmp(OpFLt, at, bt))
		case token.LEQ:
			return x.mkBool(tt.FCmp(OpFLe, at, bt))
		case token.GTR:
			return x.mkBool(tt.FCmp(OpFLt, bt, at))
		case token.GEQ:
			return x.mkBool(tt.FCmp(OpFLe, bt, at))
		}
	case Bool:
		bv := b.(Bool)
		switch op {
		case token.EQL:
			return x.mkBool(tt.BoolEq(x.bterm(av), x.bterm(bv)))
		case token.NEQ:
			return x.mkBool(tt.Not(tt.BoolEq(x.bterm(av), x.bterm(bv))))
		}
	case Str:
		bv := b.(Str)
		switch op {
		case token.ADD:
			return x.strConcat(av, bv)
		case token.EQL:
			return x.mkBool(x.strEq(av, bv))
		case token.NEQ:
			return x.mkBool(tt.Not(x.strEq(av, bv)))
		case token.LSS:
			return x.mkBool(x.strLess(av, bv, false))
		case token.LEQ:
			return x.mkBool(x.strLess(av, bv, true))
		case token.GTR:
			return x.mkBool(x.strLess(bv, av, false))
		case token.GEQ:
			return x.mkBool(x.strLess(bv, av, true))
		}
	}
	switch op {
	case token.EQL:
		return x.mkBool(x.eqTerm(a, b))
	case token.NEQ:
		return x.mkBool(tt.Not(x.eqTerm(a, b)))
	}
	unsupported("binop %s on %T", op, a)
	return nil
}

// strLess builds lexicographic byte order a < b (or <= when orEq).
func (x *Exec) strLess(a, b Str, orEq bool) *Term {
	tt := x.tt
	if a.Sym == nil && b.Sym == nil {
		if orEq {
			return tt.BoolConst(a.S <= b.S)
		}
		return tt.BoolConst(a.S < b.S)
	}
	if a.HasAtom() || b.HasAtom() {
		unsupported("ordering of atom strings")
	}
	n := a.Len()
	if b.Len() < n {
		n = b.Len()
	}
	// tail: all common bytes equal
	var r *Term
	switch {
	case a.Len() < b.Len():
		r = tt.tru
	case a.Len() == b.Len():
		r = tt.BoolConst(orEq)
	default:
		r = tt.fls
	}
	for i := n - 1; i >= 0; i-- {
		ai, bi := x.term(x.strByte(a, i)), x.term(x.strByte(b, i))
		r = tt.Or(tt.Cmp(OpUlt, ai, bi), tt.And(tt.Cmp(OpEq, ai, bi), r))
	}
	return r
}

func (x *Exec) convert(from, to types.Type, v Value) Value {
	tt := x.tt
	if w, sg, ok := intInfo(to); ok {
		switch i := v.(type) {
		case Int:
			return x.mkInt(w, sg, tt.Resize(x.term(i), w, i.Signed))
		case Float:
			if i.S == nil {
				return Int{W: w, Signed: sg, C: uint64(int64(i.C)) & mask(w)}
			}
			// gc/amd64: out of range and NaN give 0x8000000000000000
			ft := i.S
			sconv := func(ft *Term) *Term {
				lo := tt.FCmp(OpFLe, tt.FConst(-9223372036854775808.0), ft)
				hi := tt.FCmp(OpFLt, ft, tt.FConst(9223372036854775808.0))
				return tt.Ite(tt.And(lo, hi), tt.FloatToInt(ft, 64), tt.Const(64, 1<<63))
			}
			if !sg && w == 64 {
				// gc/amd64: below 2^63 the signed conversion; otherwise convert x-2^63 and flip the top bit
				two63 := tt.FConst(9223372036854775808.0)
				r := tt.Ite(tt.FCmp(OpFLt, ft, two63), sconv(ft), tt.Bin(OpBvXor, sconv(tt.FBin(OpFSub, ft, two63)), tt.Const(64, 1<<63)))
				return x.mkInt(w, sg, r)
			}
			r := sconv(ft)
			return x.mkInt(w, sg, tt.Resize(r, w, true))
		case Ptr:
			unsupported("pointer -> integer conversion")
		}
	}
	if f32, ok := isFloat(to); ok {
		switch i := v.(type) {
		case Int:
			return x.mkFloat(tt.IntToFloat(x.term(i), i.Signed), f32)
		case Float:
			if f32 == i.F32 {
				return i
			}
			if f32 {
				return x.mkFloat(x.fterm(i), true)
			}
			i.F32 = false
			return i
		}
	}
	switch tu := to.Underlying().(type) {
	case *types.Basic:
		if tu.Info()&types.IsString != 0 {
			switch s := v.(type) {
			case Str:
				return s
			case Slice:
				if len(s.Data) == 0 {
					return Str{}
				}
				if e, ok := s.Data[0].(Int); ok && e.W == 32 && e.Atom == 0 {
					if eb, isb := from.Underlying().(*types.Slice); isb {
						if bb, ok := eb.Elem().Underlying().(*types.Basic); ok && bb.Kind() == types.Int32 {
							r := Str{}
							for _, e := range s.Data {
								r = x.strConcat(r, x.encodeRune(e.(Int)))
							}
							return r
						}
					}
				}
				return bytesToStr(s.Data)
			case Int:
				return x.encodeRune(Int{W: 32, Signed: true, C: s.C & mask(32), S: x.resizeOpt(s, 32)})
			}
		}
		if tu.Kind() == types.UnsafePointer {
			unsupported("unsafe.Pointer conversion")
		}
	case *types.Slice:
		if s, ok := v.(Str); ok {
			if b, isb := tu.Elem().Underlying().(*types.Basic); isb {
				switch b.Kind() {
				case types.Uint8:
					if s.Len() == 0 {
						return Slice{Data: []Value{}}
					}
					return Slice{Data: strToBytes(s)}
				case types.Int32:
					var d []Value
					for p := 0; p < s.Len(); {
						r, w := x.decodeRune(s, p)
						d = append(d, r)
						p += w
					}
					if d == nil {
						d = []Value{}
					}
					return Slice{Data: d}
				}
			}
		}
		if s, ok := v.(Slice); ok {
			return s
		}
	case *types.Pointer:
		return v
	}
	unsupported("convert %v -> %v", from, to)
	return nil
}

func (x *Exec) resizeOpt(i Int, w int) *Term {
	if i.S == nil {
		return nil
	}
	t := x.tt.Resize(i.S, w, i.Signed)
	if t.IsConst() {
		return nil
	}
	return t
}

// encodeRune is string(rune) with Go's semantics (invalid -> U+FFFD), forking on the size classes.
func (x *Exec) encodeRune(r Int) Str {
	tt := x.tt
	if r.S != nil {
		if t := x.simp(r.S); t.IsConst() {
			r = Int{W: 32, Signed: true, C: t.K}
		}
	}
	if r.S == nil {
		return Str{S: string(rune(int32(r.C)))}
	}
	t := tt.Resize(r.S, 32, r.Signed)
	k := func(v uint64) *Term { return tt.Const(32, v) }
	b8 := func(u *Term) Int { return x.mkInt(8, false, tt.Resize(u, 8, false)) }
	shr := func(u *Term, n uint64) *Term { return tt.Bin(OpBvLshr, u, k(n)) }
	or := func(a uint64, u *Term) *Term { return tt.Bin(OpBvOr, k(a), u) }
	low6 := func(u *Term) *Term { return tt.Bin(OpBvAnd, u, k(0x3f)) }
	if x.branch(tt.Cmp(OpUlt, t, k(0x80))) {
		return Str{Sym: []Int{b8(t)}}
	}
	if x.branch(tt.Cmp(OpUlt, t, k(0x800))) {
		return Str{Sym: []Int{b8(or(0xC0, shr(t, 6))), b8(or(0x80, low6(t)))}}
	}
	bad := tt.Or(tt.Cmp(OpUlt, k(0x10FFFF), t), tt.And(tt.Cmp(OpUle, k(0xD800), t), tt.Cmp(OpUle, t, k(0xDFFF))))
	if x.branch(bad) {
		return Str{S: "�"}
	}
	if x.branch(tt.Cmp(OpUlt, t, k(0x10000))) {
		return Str{Sym: []Int{b8(or(0xE0, shr(t, 12))), b8(or(0x80, low6(shr(t, 6)))), b8(or(0x80, low6(t)))}}
	}
	return Str{Sym: []Int{b8(or(0xF0, shr(t, 18))), b8(or(0x80, low6(shr(t, 12)))), b8(or(0x80, low6(shr(t, 6)))), b8(or(0x80, low6(t)))}}
}

// decodeRune decodes the UTF-8 sequence at s[p:] with Go's semantics; returns the rune and its width.
func (x *Exec) decodeRune(s Str, p int) (Int, int) {
	tt := x.tt
	n := s.Len() - p
	b0 := x.strByte(s, p)
	if b0.Atom != 0 {
		unsupported("rune decoding through an atom")
	}
	if b0.S != nil {
		if t := x.simp(b0.S); t.IsConst() {
			b0 = Int{W: 8, C: t.K}
		}
	}
	allConc := true
	lim := n
	if lim > 4 {
		lim = 4
	}
	for i := 0; i < lim; i++ {
		if b := x.strByte(s, p+i); b.S != nil {
			allConc = false
		}
	}
	if allConc {
		buf := make([]byte, lim)
		for i := range buf {
			buf[i] = byte(x.strByte(s, p+i).C)
		}
		r, w := utf8.DecodeRune(buf)
		return Int{W: 32, Signed: true, C: uint64(uint32(r))}, w
	}
	bad := Int{W: 32, Signed: true, C: uint64(utf8.RuneError)}
	k8 := func(v uint64) *Term { return tt.Const(8, v) }
	t0 := x.term(b0)
	if x.branch(tt.Cmp(OpUlt, t0, k8(0x80))) {
		return x.mkInt(32, true, tt.Resize(t0, 32, false)), 1
	}
	inr := func(t *Term, lo, hi uint64) *Term {
		return tt.And(tt.Cmp(OpUle, k8(lo), t), tt.Cmp(OpUle, t, k8(hi)))
	}
	cont := func(i int, lo, hi uint64) (*Term, bool) {
		if i >= n {
			return nil, false
		}
		b := x.strByte(s, p+i)
		if b.Atom != 0 {
			unsupported("rune decoding through an atom")
		}
		t := x.term(b)
		if !x.branch(inr(t, lo, hi)) {
			return nil, false
		}
		return tt.Resize(tt.Bin(OpBvAnd, t, k8(0x3f)), 32, false), true
	}
	sh := func(t *Term, n uint64) *Term { return tt.Bin(OpBvShl, t, tt.Const(32, n)) }
	or := func(a, b *Term) *Term { return tt.Bin(OpBvOr, a, b) }
	lead := func(m uint64) *Term { return tt.Resize(tt.Bin(OpBvAnd, t0, k8(m)), 32, false) }
	if x.branch(inr(t0, 0xC2, 0xDF)) {
		c1, ok := cont(1, 0x80, 0xBF)
		if !ok {
			return bad, 1
		}
		return x.mkInt(32, true, or(sh(lead(0x1f), 6), c1)), 2
	}
	if x.branch(inr(t0, 0xE0, 0xEF)) {
		lo, hi := uint64(0x80), uint64(0xBF)
		if x.branch(tt.Cmp(OpEq, t0, k8(0xE0))) {
			lo = 0xA0
		} else if x.branch(tt.Cmp(OpEq, t0, k8(0xED))) {
			hi = 0x9F
		}
		c1, ok := cont(1, lo, hi)
		if !ok {
			return bad, 1
		}
		c2, ok := cont(2, 0x80, 0xBF)
		if !ok {
			return bad, 1
		}
		return x.mkInt(32, true, or(or(sh(lead(0x0f), 12), sh(c1, 6)), c2)), 3
	}
	if x.branch(inr(t0, 0xF0, 0xF4)) {
		lo, hi := uint64(0x80), uint64(0xBF)
		if x.branch(tt.Cmp(OpEq, t0, k8(0xF0))) {
			lo = 0x90
		} else if x.branch(tt.Cmp(OpEq, t0, k8(0xF4))) {
			hi = 0x8F
		}
		c1, ok := cont(1, lo, hi)
		if !ok {
			return bad, 1
		}
		c2, ok := cont(2, 0x80, 0xBF)
		if !ok {
			return bad, 1
		}
		c3, ok := cont(3, 0x80, 0xBF)
		if !ok {
			return bad, 1
		}
		return x.mkInt(32, true, or(or(or(sh(lead(0x07), 18), sh(c1, 12)), sh(c2, 6)), c3)), 4
	}
	return bad, 1
}

// ---- builtins

func (x *Exec) builtin(b *ssa.Builtin, args []Value) Value {
	switch b.Name() {
	case "len":
		switch a := args[0].(type) {
		case Str:
			if a.HasAtom() {
				return x.atomLen(a)
			}
			return mkI64(int64(a.Len()))
		case Slice:
			return mkI64(int64(len(a.Data)))
		case Map:
			if a.M == nil {
				return mkI64(0)
			}
			return mkI64(int64(a.M.live))
		case Array:
			return mkI64(int64(len(a)))
		case Ptr:
			return mkI64(int64(len((*a.P).(Array))))
		}
	case "cap":
		switch a := args[0].(type) {
		case Slice:
			return mkI64(int64(cap(a.Data)))
		case Array:
			return mkI64(int64(len(a)))
		case Ptr:
			return mkI64(int64(len((*a.P).(Array))))
		}
	case "append":
		s := args[0].(Slice)
		var add []Value
		switch a := args[1].(type) {
		case Slice:
			add = a.Data
		case Str:
			add = strToBytes(a)
		}
		return x.appendSlice(s, add)
	case "copy":
		dst := args[0].(Slice)
		var src []Value
		switch a := args[1].(type) {
		case Slice:
			src = a.Data
		case Str:
			src = strToBytes(a)
		}
		n := len(src)
		if len(dst.Data) < n {
			n = len(dst.Data)
		}
		tmp := make([]Value, n)
		copy(tmp, src[:n])
		for i := 0; i < n; i++ {
			x.store(&dst.Data[i], copyVal(tmp[i]))
		}
		return mkI64(int64(n))
	case "recover":
		for i := len(x.deferStack) - 1; i >= 0; i-- {
			f := x.deferStack[i]
			if f.panicking != nil {
				gp := f.panicking
				f.panicking = nil
				x.lastRecovered = gp
				if gp.val != nil {
					return gp.val
				}
				return x.runtimeError(gp.msg)
			}
		}
		return Iface{}
	case "ssa:wrapnilchk":
		if p, ok := args[0].(Ptr); ok && p.P == nil {
			goPanicf("value method called using nil pointer")
		}
		return args[0]
	case "min", "max":
		isMin := b.Name() == "min"
		acc := args[0]
		for _, nx := range args[1:] {
			acc = x.minmax(acc, nx, isMin)
		}
		return acc
	case "delete":
		x.mapDelete(args[0].(Map), args[1])
		return nil
	case "clear":
		switch a := args[0].(type) {
		case Map:
			if a.M != nil {
				ks, _ := a.M.entries()
				for _, k := range ks {
					x.mapDelete(a, k)
				}
			}
			return nil
		case Slice:
			// zero every element (slices.Delete clears the tail it drops)
			if sig, ok := b.Type().(*types.Signature); ok && sig.Params().Len() == 1 {
				if st, ok := sig.Params().At(0).Type().Underlying().(*types.Slice); ok {
					for i := range a.Data {
						x.assign(&a.Data[i], zero(st.Elem()))
					}
					return nil
				}
			}
		}
	case "print", "println":
		return nil
	}
	unsupported("builtin %s on %T", b.Name(), args[0])
	return nil
}

func (x *Exec) minmax(a, b Value, isMin bool) Value {
	tt := x.tt
	switch av := a.(type) {
	case Int:
		bv := b.(Int)
		op := OpUlt
		if av.Signed {
			op = OpSlt
		}
		lt := tt.Cmp(op, x.term(av), x.term(bv))
		if isMin {
			return x.mkInt(av.W, av.Signed, tt.Ite(lt, x.term(av), x.term(bv)))
		}
		return x.mkInt(av.W, av.Signed, tt.Ite(lt, x.term(bv), x.term(av)))
	case Float:
		bv := b.(Float)
		if av.S == nil && bv.S == nil {
			if isMin {
				return Float{C: math.Min(av.C, bv.C)}
			}
			return Float{C: math.Max(av.C, bv.C)}
		}
	}
	unsupported("min/max on %T", a)
	return nil
}

// runtimeError wraps a runtime panic message as an error value (runtime.Error is modelled by errorString).
func (x *Exec) runtimeError(msg string) Value {
	return x.mkError("runtime error: " + msg)
}

// growCap ports the gc runtime's nextslicecap followed by malloc size-class rounding for 16-byte elements
// (grol's containers hold interfaces); capacities then match the native build for interface slices.
func growCap(oldCap, needed int, elemSize int) int {
	newcap := oldCap
	doublecap := newcap + newcap
	if needed > doublecap {
		newcap = needed
	} else {
		const threshold = 256
		if oldCap < threshold {
			newcap = doublecap
		} else {
			for {
				newcap += (newcap + 3*threshold) >> 2
				if uint(newcap) >= uint(needed) {
					break
				}
			}
		}
	}
	if newcap <= 0 {
		return needed
	}
	return roundupsize(newcap*elemSize) / elemSize
}

var sizeClasses = []int{0, 8, 16, 24, 32, 48, 64, 80, 96, 112, 128, 144, 160, 176, 192, 208, 224, 240, 256, 288, 320, 352, 384, 416, 448, 480, 512, 576, 640, 704, 768, 896, 1024, 1152, 1280, 1408, 1536, 1792, 2048, 2304, 2688, 3072, 3200, 3456, 4096, 4864, 5376, 6144, 6528, 6784, 6912, 8192, 9472, 9728, 10240, 10880, 12288, 13568, 14336, 16384, 18432, 19072, 20480, 21760, 24576, 27264, 28672, 32768}

func roundupsize(size int) int {
	if size <= 32768 {
		for _, c := range sizeClasses {
			if c >= size {
				return c
			}
		}
	}
	const page = 8192
	return (size + page - 1) / page * page
}

func elemSizeOf(v Value) int {
	switch e := v.(type) {
	case Int:
		return (e.W + 7) / 8
	case Bool:
		return 1
	case Float:
		return 8
	case Str, Iface:
		return 16
	case Slice:
		return 24
	case Struct:
		n := 0
		for _, f := range e {
			n += (elemSizeOf(f) + 7) / 8 * 8
		}
		if n == 0 {
			n = 1
		}
		return n
	case Array:
		if len(e) == 0 {
			return 1
		}
		return len(e) * elemSizeOf(e[0])
	}
	return 8
}

func (x *Exec) appendSlice(s Slice, add []Value) Value {
	if len(add) == 0 {
		return s
	}
	n := len(s.Data) + len(add)
	if n <= cap(s.Data) {
		d := s.Data[:n]
		tmp := make([]Value, len(add))
		copy(tmp, add)
		for i, v := range tmp {
			x.store(&d[len(s.Data)+i], copyVal(v))
		}
		return Slice{Data: d}
	}
	nc := growCap(cap(s.Data), n, elemSizeOf(add[0]))
	if nc < n {
		nc = n
	}
	d := make([]Value, nc)
	copy(d, s.Data)
	for i, v := range add {
		d[len(s.Data)+i] = copyVal(v)
	}
	// spare capacity holds zero values of the element kind
	for i := n; i < nc; i++ {
		d[i] = zeroLike(add[0])
	}
	return Slice{Data: d[:n]}
}

func zeroLike(v Value) Value {
	switch e := v.(type) {
	case Int:
		return Int{W: e.W, Signed: e.Signed}
	case Bool:
		return Bool{}
	case Float:
		return Float{F32: e.F32}
	case Str:
		return Str{}
	case Iface:
		return Iface{}
	case Ptr:
		return Ptr{}
	case Slice:
		return Slice{Nil: true}
	case Map:
		return Map{}
	case Struct:
		n := make(Struct, len(e))
		for i := range e {
			n[i] = zeroLike(e[i])
		}
		return n
	case Array:
		n := make(Array, len(e))
		for i := range e {
			n[i] = zeroLike(e[i])
		}
		return n
	case Func, *Closure, NilFunc:
		return NilFunc{}
	}
	return nil
}
