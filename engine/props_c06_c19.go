package main

import (
	"strings"
	"time"
)

func init() {
	register(&PropSpec{
		ID: "C19",
		Jobs: func(tier string, seed int64) []Job {
			inits := []string{"a", "x", "s", "p", "nil", "[a,b]", "[0,1,2,3,4,5,6,7,8,a]", "{a:b}", "{1:1,2:2,3:3,4:4,5:a}", "func(y){y+a}", "[x, [a]]", "{1:x, 2:[a]}", "(n => (y => y+n))(a)", "func KF(y){y+a}", "func KR(y){if y == 0 {return a}; KR(0)}",
				// large-representation maps with few entries
				"{1:a,1:b,1:c,1:a,1:b}", "(func(){m={1:1,2:2,3:3,4:4,5:a}; del(m[5]); del(m[4]); m})()", "(func(){m=[0,1,2,3,4,5,6,7,8,a]; m[0:2]})()"}
			muts := []string{
				"K = b", "K := b", "K = [b]", "K = y", "K++", "K--", "++K", "--K", "K[0] = b", "K[-1] = b", "K[c] = b", "K[1] = b", "K.k = b", "K[5] = b",
				"del(K[0])", "del(K[1])", "del(K[5])", "del(K.k)", "for K = 3 {1}", "for K = [b, c] {1}", "for K = 0:2 {K}", "for K = k0 {K}",
				"func f(K){K}; f(b)", "func f(K){K = c; K}; f(b)", "for K = 3 {println(K)}", "func f(K){println(K); K}; f(b); K", "for K = 2 {K}; K", "func g(){K = b}; g()", "func g(){K[0] = b}; g()", "func g(){K++}; g()", "func g(){del(K[0])}; g()",
				"for i = 2 {K = i}", "for i = 2 {K[0] = i}", "h = func(){K = b}; h()", "h = func(){func(){K[0] = b}()}; h()", "K = K", "K = a", "K, b",
				// the "same value" again, up to what == ignores: int vs float inside containers, the sign of zero, a closure with the same text
				"K = K * 1.0", "K = -K", "K = 0.0 - K", "K[0] = K[0] * 1.0", "K[0] = -K[0]", "K[1] = [a * 1.0]", "K[2] = [a * 1.0]", "K[a] = K[a] * 1.0", "K[5] = K[5] * 1.0", "K = [a * 1.0, b]", "K = {a: b * 1.0}", "K = [-x, [a]]", "K = {1: -x, 2: [a]}",
				"K = (n => (y => y+n))(b)", "K = func(y){y+a}", "mk = n => (y => y+n); K = mk(c)", "func gk(y){y+a}; K = gk", "func gk(y){if y == 0 {return a}; gk(0)}; K = gk",
				"func g(u){u[0] = b; u}; g(K)", "L = K; L[0] = b", "L = K; L = L + [b]", "L = K; del(L[1])", "L = K + K", "[K][0][0] = b", "catch(K = b)", "K = b; K = c",
			}
			var jobs []Job
			for _, in := range inits {
				for _, m := range muts {
					jobs = append(jobs, Job{Prop: "C19", Pkg: "eval", Func: "VerifConstant", Args: []string{in, m, "reg"}, MaxDec: 600})
					if tier == "thorough" || len(m)%3 == 0 {
						jobs = append(jobs, Job{Prop: "C19", Pkg: "eval", Func: "VerifConstant", Args: []string{in, m, "noreg"}, MaxDec: 600})
					}
				}
			}
			// constants bound inside functions: captured by closures that try to re-bind them later, bound from a parameter
			for _, pr := range [][3]string{
				{"func mk(){LIM := a; [func(){LIM := b; LIM}, func(){LIM}]}; g = mk(); catch(g[0]())", "g[1]()", "a"},
				{"func mk(){LIM := a; [func(LIM){LIM}, func(){LIM}]}; g = mk(); catch(g[0](b))", "g[1]()", "a"},
				{"func mk(){LIM := a; [func(){LIM = b; LIM}, func(){LIM}]}; g = mk(); catch(g[0]())", "g[1]()", "a"},
				{"func mk(){LIM := [a]; [func(){LIM[0] = b}, func(){LIM}]}; g = mk(); catch(g[0]())", "g[1]()[0]", "a"},
				{"func mk(){LIM := a; [func(){for LIM = 3 {1}}, func(){LIM}]}; g = mk(); catch(g[0]())", "g[1]()", "a"},
				{"func mk(){LIM := a; [func(){LIM++}, func(){LIM}]}; g = mk(); catch(g[0]())", "g[1]()", "a"},
				{"func mk(){LIM := a; func(){LIM := b; LIM}}; g = mk(); r = catch(g())", "r.err || r.value == a", "true"},
				{"func mk(){LIM := a; func(LIM){LIM}}; g = mk(); r = catch(g(b))", "r.err || r.value == a", "true"},
				{"func mk(){LIM := a; func(){func(){LIM := b; LIM}()}}; g = mk(); r = catch(g())", "r.err || r.value == a", "true"},
				{"LIM = a; func mk(){func(){LIM := b; LIM}}; g = mk(); r = catch(g())", "r.err || r.value == a", "true"},
				{"func fk(n){KK := n; n = n + 5; KK}", "fk(a)", "a"},
				{"func fk(n){KK = n; n = n * 2; n++; KK}", "fk(a)", "a"},
				{"func fk(){for i = 5 {if i == k1 {KK := i}}; KK}; r = catch(fk())", "r.value", "k1"},
				{"func fk(n){KK := [n]; n = n + 1; KK[0]}", "fk(a)", "a"},
				{"func fk(n){KK := n; h = func(){KK}; n = n - 1; h()}", "fk(a)", "a"},
			} {
				for _, reg := range []string{"reg", "noreg"} {
					jobs = append(jobs, Job{Prop: "C19", Pkg: "eval", Func: "VerifConstProgram", Args: []string{pr[0], pr[1], pr[2], reg}, MaxDec: 600})
				}
			}
			// every spelling of a constant name: the name is substituted for K in a sample of the skeletons
			for _, name := range []string{"K_", "MAX_", "A_B_", "K9", "K__", "K_1", "X"} {
				for _, in := range []string{"a", "[a,b]", "{a:b}"} {
					for i, m := range muts {
						if tier == "thorough" || i%3 == 0 || strings.HasPrefix(m, "K = b") || strings.HasPrefix(m, "K++") || strings.HasPrefix(m, "for K") {
							jobs = append(jobs, Job{Prop: "C19", Pkg: "eval", Func: "VerifConstant", Args: []string{in, m, "reg", name}, MaxDec: 600})
						}
					}
				}
			}
			return jobs
		},
		Budget: map[string]time.Duration{"quick": 6 * time.Minute, "thorough": 40 * time.Minute},
		Reach:  []string{"mutation attempt refused"},
		Bounds: map[string]interface{}{"local_constants": "15 programs binding a constant inside a function (captured by closures that try =, :=, ++, index assignment, a loop or a parameter of that name after the function returned; bound from a parameter that changes afterwards), registers on and off", "constant_names": "K for every skeleton; K_, MAX_, A_B_, K9, K__, K_1, X for a third of them", "constant_values": "Integer, Float, String (2 bytes), Boolean, nil, small array, 10-element array, small map, 5-pair map, function - scalar contents symbolic",
			"mutation_attempts": "43 programs: = := ++ -- (prefix and postfix), index and dot assignment, del of an element, use as loop variable (4 loop forms) and as parameter name, assignment / index assignment / ++ / del from nested functions, closures and loops, mutation through a copy, a function argument or a container holding the constant",
			"registers":         "on; off for a third of the skeletons (all in thorough)"},
		Outside: []string{"sequences of more than one mutation program", "extension functions that mutate their argument"},
	})
	register(&PropSpec{
		ID: "C06",
		Jobs: func(tier string, seed int64) []Job {
			maxN := "12"
			if tier == "thorough" {
				maxN = "20"
			}
			type sk struct {
				kind, setup, mutate string
				watch               []string
			}
			var sks []sk
			for _, kind := range []string{"array", "map"} {
				binders := []string{
					"a1 = %C; b1 = a1",
					"a1 = %C; func id(u){u}; b1 = id(a1)",
					"a1 = %C; w = [a1]; b1 = w[0]",
					"a1 = %C; w = {1:a1}; b1 = w[1]",
					"a1 = %C; b1 = a1[0:]",
					"a1 = %C; b1 = a1 + a1",
					"a1 = %C; w = [a1, a1]; b1 = w[1]",
				}
				muts := []string{"b1[0] = c", "b1[-1] = c", "b1[1] = c", "b1 = b1 + b1", "func mut(u){u[0] = c; u}; mut(b1)", "for e = [b1] {e[0] = c}", "w2 = [b1]; w2[0][0] = c", "func g(){b1[0] = c}; g()"}
				if kind == "array" {
					muts = append(muts, "b1 = b1 + [c]", "b1 = b1 + c", "b1 = b1 * 2")
				} else {
					muts = append(muts, "del(b1[0])", "del(b1[1])", "b1.k = c", "b1 = b1 + {c:c}", "func g(){del(b1[0])}; g()")
				}
				for _, b := range binders {
					for _, m := range muts {
						sks = append(sks, sk{kind, b, m, []string{"a1"}})
					}
				}
				// rest / slices: mutating the part must not change the whole (and vice versa)
				sks = append(sks,
					sk{kind, "a1 = %C; b1 = rest(a1)", "b1[0] = c", []string{"a1"}},
					sk{kind, "a1 = %C; b1 = rest(a1)", "a1[1] = c", []string{"b1"}},
					sk{kind, "a1 = %C; b1 = a1[1:]", "b1[0] = c", []string{"a1"}},
					sk{kind, "a1 = %C; b1 = a1[1:]", "a1[1] = c", []string{"b1"}},
					sk{kind, "a1 = %C; b1 = a1[0:2]", "b1 = b1 + b1", []string{"a1"}},
				)
			}
			// values built inside a function from an outer variable must not stay tied to that variable
			for _, kind := range []string{"array", "map"} {
				for _, mk := range []string{"[a1, 0]", "{1: a1}", "[[a1]]", "{1: [a1]}", "a1", "first([a1])", "rest([0, a1])", "[a1] + [a1]", "va(a1)", "va(0, a1)", "(() => [a1])()", "if true {[a1]}", "[a1][0:1]"} {
					for _, m := range []string{"a1[0] = c", "a1 = c", "del(a1)", "a1 = a1 + a1"} {
						sks = append(sks, sk{kind, "a1 = %C; func va(..){..}; func mk(){" + mk + "}; w = mk()", m, []string{"w"}})
					}
				}
				sks = append(sks,
					sk{kind, "a1 = %C; func mk(){() => [a1]}; g = mk(); w = g()", "a1[0] = c", []string{"w"}},
					sk{kind, "a1 = %C; func mk(u){[u, a1]}; w = mk(a1)", "a1[0] = c", []string{"w"}},
					sk{kind, "a1 = %C; func mk(){t = a1; [t]}; w = mk()", "a1[0] = c", []string{"w"}},
					sk{kind, "a1 = %C; w = []; func add(){w = w + [a1]}; add()", "a1[0] = c", []string{"w"}},
					sk{kind, "a1 = %C; w = {}; func add(){w[1] = a1}; add()", "a1[0] = c", []string{"w"}},
					sk{kind, "a1 = %C; func mk(){for e = [a1] {return [e]}}; w = mk()", "a1[0] = c", []string{"w"}},
				)
			}
			// maps in the large representation holding few entries (a larger map that shrank; a literal with repeated keys)
			sks = append(sks,
				sk{"map", "e0 = %C; a1 = {1:1,2:2,3:3,4:4,5:c}; del(a1[5]); del(a1[4]); b1 = a1", "b1[1] = c", []string{"a1"}},
				sk{"map", "e0 = %C; a1 = {1:1,2:2,3:3,4:4,5:c}; del(a1[5]); b1 = a1", "del(b1[1])", []string{"a1"}},
				sk{"map", "e0 = %C; a1 = {1:1,2:2,3:3,1:10,2:c}; b1 = a1", "b1[3] = c", []string{"a1"}},
				sk{"map", "e0 = %C; a1 = {1:1,2:2,3:3,4:4,5:c}; del(a1[5]); func mut(u){u[2] = c; u}", "mut(a1)", []string{"a1"}},
				sk{"map", "a1 = %C; a1.zz1 = 1; b1 = a1", "c1 = a1 + {0: c}", []string{"a1", "b1"}},
				sk{"map", "a1 = %C; a1.zz1 = 1; c1 = a1 + {\"zz9\": 1}", "d1 = a1 + {\"zz8\": c}", []string{"a1", "c1"}},
				sk{"map", "a1 = %C; b1 = a1[0:3]", "c1 = b1 + {100: c}", []string{"a1", "b1"}},
			)
			// the introspection map is a value like any other once it is bound
			sks = append(sks,
				sk{"map", "e0 = %C; a1 = info", "zz9 = 1; b1 = info", []string{"a1"}},
				sk{"map", "e0 = %C; a1 = info.globals", "zz9 = 1; b1 = info.globals", []string{"a1"}},
				sk{"map", "e0 = %C; func fi(){info}; a1 = fi()", "func gi(){zz8 = 2; info}; b1 = gi()", []string{"a1"}},
			)
			// two bindings of one map that each get a new largest key; a partial view that grows
			sks = append(sks,
				sk{"map", "a1 = %C; a1.zz1 = 1; b1 = a1; b1.zz2 = c", "a1.zz3 = b", []string{"b1"}},
				sk{"map", "a1 = %C; a1.zz1 = 1; b1 = a1; a1.zz3 = b", "b1.zz2 = c", []string{"a1"}},
				sk{"map", "a1 = %C; del(a1[0]); b1 = a1; b1.zz2 = c", "a1.zz3 = b", []string{"b1"}},
				sk{"map", "a1 = %C; b1 = a1[0:2]", "b1.zz = c", []string{"a1"}},
				sk{"map", "a1 = %C; b1 = a1[1:3]", "b1.zz = c", []string{"a1"}},
				sk{"map", "a1 = %C; b1 = a1[0:2]", "a1.zz = c", []string{"b1"}},
				sk{"array", "a1 = %C; b1 = a1[0:2]", "b1 = b1 + [c]", []string{"a1"}},
				sk{"array", "a1 = %C; b1 = a1[1:3]; c1 = b1 + [b]", "e1 = b1 + [c]", []string{"a1", "c1"}},
			)
			// x + y never modifies x or y; two appends from the same left operand are independent
			sks = append(sks,
				sk{"array", "a1 = %C + [7]; c1 = a1 + [c]", "e1 = a1 + [b]", []string{"a1", "c1"}},
				sk{"array", "a1 = %C; c1 = a1 + [c]; a2 = c1 + [1]", "e1 = c1 + [b]", []string{"a1", "c1", "a2"}},
				sk{"array", "a1 = %C; a0 = a1[0:1]; c1 = a0 + [c]", "e1 = a0 + [b]", []string{"a1", "c1", "a0"}},
				sk{"map", "a1 = %C; c1 = a1 + {c:1}", "e1 = a1 + {b:2}", []string{"a1", "c1"}},
			)
			var jobs []Job
			for _, k := range sks {
				args := append([]string{k.kind, maxN, k.setup, k.mutate}, k.watch...)
				jobs = append(jobs, Job{Prop: "C06", Pkg: "eval", Func: "VerifAlias", Args: args, MaxDec: 600})
			}
			return jobs
		},
		Budget: map[string]time.Duration{"quick": 6 * time.Minute, "thorough": 40 * time.Minute},
		Reach:  []string{"mutation applied"},
		Bounds: map[string]interface{}{"sizes": "every container size 0..12 (20 thorough): both sides of the 8-element / 4-pair thresholds",
			"skeletons": "13 ways of building a value from an outer variable inside a function (array / map literal, nesting, return, first/rest, +, variadic extras, lambda, if, slice) x 4 later changes of that variable; two bindings of one map each getting a new largest key; partial views that grow; 7 ways of obtaining a second binding (assignment, function result, through an array, through a map, full slice, concatenation) x 11-13 mutations (index assignment incl. negative, append, merge, repeat, del, dot assignment, from a function, a loop, a nested container) x {array, map}; rest/slice parts; pairs of appends from one left operand",
			"values":    "the stored value and the first element are symbolic int64",
			"capacity":  "Go slice growth is modelled with the gc runtime's nextslicecap + size classes, so append aliasing through spare capacity is the native build's"},
		Outside: []string{"containers larger than 20", "extension functions that mutate their argument in place"},
	})
}
