package main

import (
	"fmt"
	"runtime/debug"
	"sort"
	"strings"
	"sync"
	"time"

	"golang.org/x/tools/go/ssa"
)

// Job is one harness invocation with concrete (skeleton) arguments; its symbolic inputs are explored exhaustively.
type Job struct {
	Prop     string
	Pkg      string // short package name under grol.io/grol ("lexer", "eval", ...)
	Func     string
	Args     []string
	Setup    string // optional function run once per worker before any path (e.g. extensions.Init wrapper)
	MaxSteps int64
	MaxDec   int  // bound on decisions per path (default 2000)
	MapOrder bool // explore Go map iteration orders as choice points
	NoAtoms  bool // execute number formatting digit by digit instead of atoms
	// HangLabel: a path that exhausts MaxSteps (or the call depth) is reported under this label as a
	// non-termination candidate; it counts only if the native replay does not finish either.
	HangLabel string
}

func (j Job) ID() string { return j.Pkg + "." + j.Func + "(" + strings.Join(j.Args, ",") + ")" }

type VioAgg struct {
	Label string
	Count int
	First Violation
	Job   Job
	Notes []string
}

type JobResult struct {
	Job             Job
	Paths           int
	Completed       int // paths that ran to the end of the harness
	Ends            map[string]int
	Vio             map[string]*VioAgg
	Reaches         map[string]int
	Notes           map[string]int
	Steps           int64
	Decisions       int64
	UnknownQ        int
	NotExplored     int // pending prefixes dropped because the time budget ran out
	NontrivialPaths int
	AssertsUnsat    int64
	AssertsConst    int64
	UnknownPaths    int
	seen            map[uint64]bool
	Wall            time.Duration
}

type workItem struct {
	ji     int
	prefix []uint64
}

type Runner struct {
	l         *Loaded
	workers   int
	solverBin string
	timeoutMs int
	deadline  time.Time

	mu      sync.Mutex
	cond    *sync.Cond
	stack   []workItem
	busy    int
	results []*JobResult
	jobs    []Job

	// aggregated engine statistics
	Queries, OneShot, SolverUnknown, SolverErrors int
	SolverTime                                    time.Duration
	MaxQuery                                      time.Duration
	Funcs                                         map[string]int
	Stubs                                         map[string]bool
	Assumes                                       map[string]bool
	EngineErrors                                  map[string]int
	XSamples                                      []xSample
}

func NewRunner(l *Loaded, workers int, solverBin string, timeoutMs int) *Runner {
	r := &Runner{l: l, workers: workers, solverBin: solverBin, timeoutMs: timeoutMs,
		Funcs: map[string]int{}, Stubs: map[string]bool{}, Assumes: map[string]bool{}, EngineErrors: map[string]int{}}
	r.cond = sync.NewCond(&r.mu)
	return r
}

// normPanic reduces a panic message to its class (numbers abstracted); same algorithm as the prelude's.
func normPanic(msg string) string {
	msg = strings.TrimPrefix(msg, "runtime error: ")
	for _, cls := range []string{"slice bounds out of range", "index out of range", "interface conversion", "makeslice",
		"invalid memory address or nil pointer dereference", "comparing uncomparable", "hash of unhashable"} {
		if strings.HasPrefix(msg, cls) {
			return cls
		}
	}
	// messages built with fmt from run-time values: keep the constant prefix only
	for i := 0; i < len(msg); i++ {
		c := msg[i]
		if c >= '0' && c <= '9' || c == '(' || c == '<' || c == '[' || c == '"' || c >= 0x80 || c == '-' && i+1 < len(msg) && msg[i+1] >= '0' && msg[i+1] <= '9' {
			if i > 12 {
				return strings.TrimSpace(msg[:i])
			}
			break
		}
	}
	var sb strings.Builder
	isHex := func(c byte) bool { return c >= '0' && c <= '9' || c >= 'a' && c <= 'f' }
	for i := 0; i < len(msg); {
		c := msg[i]
		switch {
		case c == '0' && i+2 < len(msg) && msg[i+1] == 'x' && isHex(msg[i+2]):
			i += 2
			for i < len(msg) && isHex(msg[i]) {
				i++
			}
			sb.WriteByte('N')
		case c >= '0' && c <= '9', c == '-' && i+1 < len(msg) && msg[i+1] >= '0' && msg[i+1] <= '9':
			i++
			for i < len(msg) && msg[i] >= '0' && msg[i] <= '9' {
				i++
			}
			sb.WriteByte('N')
		default:
			sb.WriteByte(c)
			i++
		}
	}
	msg = sb.String()
	if len(msg) > 120 {
		msg = msg[:120]
	}
	return msg
}

// Run explores all jobs; budget <= 0 means no time limit.
func (r *Runner) Run(jobs []Job, budget time.Duration) []*JobResult {
	r.jobs = jobs
	r.results = make([]*JobResult, len(jobs))
	for i, j := range jobs {
		r.results[i] = &JobResult{Job: j, Ends: map[string]int{}, Vio: map[string]*VioAgg{}, Reaches: map[string]int{}, Notes: map[string]int{}}
	}
	// push in reverse so that job 0 is explored first
	for i := len(jobs) - 1; i >= 0; i-- {
		r.stack = append(r.stack, workItem{ji: i})
	}
	if budget > 0 {
		r.deadline = time.Now().Add(budget)
	}
	var wg sync.WaitGroup
	n := r.workers
	if n > len(jobs)*4 && len(jobs) > 0 && n > 4 {
		// few jobs: still start all workers, forks will feed them
	}
	for w := 0; w < n; w++ {
		wg.Add(1)
		go func(w int) {
			defer wg.Done()
			r.worker(w)
		}(w)
	}
	wg.Wait()
	return r.results
}

func (r *Runner) pop() (workItem, bool) {
	r.mu.Lock()
	defer r.mu.Unlock()
	for {
		if !r.deadline.IsZero() && time.Now().After(r.deadline) {
			// drain: count what is left as not explored
			for _, it := range r.stack {
				r.results[it.ji].NotExplored++
			}
			r.stack = nil
			r.cond.Broadcast()
			return workItem{}, false
		}
		if len(r.stack) > 0 {
			it := r.stack[len(r.stack)-1]
			r.stack = r.stack[:len(r.stack)-1]
			r.busy++
			return it, true
		}
		if r.busy == 0 {
			r.cond.Broadcast()
			return workItem{}, false
		}
		r.cond.Wait()
	}
}

func (r *Runner) done() {
	r.mu.Lock()
	r.busy--
	if r.busy == 0 && len(r.stack) == 0 {
		r.cond.Broadcast()
	}
	r.mu.Unlock()
}

func (r *Runner) push(it workItem) {
	r.mu.Lock()
	r.stack = append(r.stack, it)
	r.mu.Unlock()
	r.cond.Signal()
}

func (r *Runner) worker(w int) {
	x := NewExec(r.l.prog, r.solverBin, r.timeoutMs)
	defer func() {
		x.solver.Close()
		r.mu.Lock()
		r.Queries += x.solver.Queries
		r.OneShot += x.solver.OneShot
		r.SolverUnknown += x.solver.Unknown
		r.SolverErrors += x.solver.Errors
		r.SolverTime += x.solver.Time
		if x.solver.MaxQuery > r.MaxQuery {
			r.MaxQuery = x.solver.MaxQuery
		}
		r.XSamples = append(r.XSamples, x.solver.Samples...)
		if x.solver.slowest != nil {
			r.XSamples = append(r.XSamples, *x.solver.slowest)
		}
		for f := range x.funcsRun {
			r.Funcs[f.String()] = instrCount(f)
		}
		for s := range x.stubsHit {
			r.Stubs[s] = true
		}
		for s := range x.assumes {
			r.Assumes[s] = true
		}
		r.mu.Unlock()
	}()
	setups := map[string]bool{}
	// a ticker wakes waiting workers so that the deadline is noticed
	for {
		it, ok := r.pop()
		if !ok {
			return
		}
		r.runPath(x, it, setups)
		r.done()
	}
}

func instrCount(f *ssa.Function) int {
	n := 0
	for _, b := range f.Blocks {
		n += len(b.Instrs)
	}
	return n
}

type pathOutcome struct {
	end        string
	violations []Violation
	reaches    []string
	notes      []string
	steps      int64
	decisions  int
	unknown    int
	completed  bool
	aUnsat     int64
	aConst     int64
	sig        uint64
}

func (r *Runner) runPath(x *Exec, it workItem, setups map[string]bool) {
	job := r.jobs[it.ji]
	res := r.results[it.ji]
	pathStart := time.Now()
	pkg := r.l.pkg(job.Pkg)
	out := pathOutcome{}
	record := func() {
		r.mu.Lock()
		defer r.mu.Unlock()
		res.Paths++
		res.Wall += time.Since(pathStart)
		if out.completed {
			res.Completed++
		}
		res.Ends[out.end]++
		res.Steps += out.steps
		res.Decisions += int64(out.decisions)
		res.UnknownQ += out.unknown
		if out.unknown > 0 {
			res.UnknownPaths++
		}
		if out.decisions > 0 {
			res.NontrivialPaths++
		}
		res.AssertsUnsat += out.aUnsat
		res.AssertsConst += out.aConst
		if res.seen == nil {
			res.seen = map[uint64]bool{}
		}
		if res.seen[out.sig] {
			res.Notes["duplicate-path"]++
		}
		res.seen[out.sig] = true
		for _, l := range out.reaches {
			res.Reaches[l]++
		}
		for _, n := range out.notes {
			res.Notes[n]++
		}
		for _, v := range out.violations {
			a, ok := res.Vio[v.Label]
			if !ok {
				a = &VioAgg{Label: v.Label, First: v, Job: job, Notes: out.notes}
				res.Vio[v.Label] = a
			}
			a.Count++
		}
	}
	if pkg == nil {
		out.end = "harness-package-missing"
		record()
		return
	}
	fn := pkg.Func(job.Func)
	if fn == nil {
		out.end = "harness-function-missing"
		record()
		return
	}
	x.resetPath(it.prefix)
	x.fork = func(prefix []uint64) { r.push(workItem{ji: it.ji, prefix: prefix}) }
	if job.MaxSteps > 0 {
		x.maxSteps = job.MaxSteps
	} else {
		x.maxSteps = 20_000_000
	}
	if job.MaxDec > 0 {
		x.maxDec = job.MaxDec
	} else {
		x.maxDec = 2000
	}
	if job.MapOrder {
		x.env = map[string]Value{}
	} else {
		x.env = map[string]Value{"mapOrderOff": true}
	}
	x.stubs = harnessStubs(pkg)
	x.stubOff = nil
	x.stubOn = nil
	func() {
		defer func() {
			rec := recover()
			if rec == nil {
				out.end, out.completed = "ok", true
				return
			}
			switch e := rec.(type) {
			case goPanic:
				label := "go-panic:" + normPanic(e.msg)
				site := e.site
				if site == "" && len(x.cstack) > 0 {
					site = x.cstack[len(x.cstack)-1].cf.fn.String()
				}
				label += "@" + site
				out.end = "go-panic"
				if !x.replaying() {
					m := x.model
					if m == nil {
						rs, m2 := x.solver.Check(x.pc, x.tt.tru, x.symVars)
						if rs == 1 {
							m = m2
						}
					}
					if m != nil {
						x.recordViolation(label, true, m)
					} else {
						out.end = "go-panic-on-unconfirmed-path: " + label
					}
				}
			case pathEnd:
				out.end = e.reason
				if strings.HasPrefix(e.reason, "unsupported") {
					out.end += " @" + x.where()
				}
				if job.HangLabel != "" && (e.reason == "bound-exceeded: steps" || e.reason == "bound-exceeded: call depth") && !x.replaying() {
					if rs, m := x.solver.Check(x.pc, x.tt.tru, x.symVars); rs == 1 {
						x.recordViolation(job.HangLabel, true, m)
						out.end = "non-termination candidate (" + e.reason + ")"
					}
				}
			case atomMismatch:
				out.end = "unsupported: atom compared with bytes"
			case solverDied:
				out.end = "solver-died: " + e.msg
				x.solver.restart()
			default:
				st := string(debug.Stack())
				msg := fmt.Sprint(rec)
				if len(msg) > 200 {
					msg = msg[:200]
				}
				out.end = "engine-error: " + msg + " @" + x.where()
				r.mu.Lock()
				if len(r.EngineErrors) < 20 {
					r.EngineErrors[msg+"\n"+trimStack(st)]++
				}
				r.mu.Unlock()
			}
		}()
		if job.Setup != "" && !setups[job.Pkg+"."+job.Setup] {
			sf := pkg.Func(job.Setup)
			if sf == nil {
				panic(pathEnd{"setup-function-missing"})
			}
			x.logUndo = false
			x.callSSA(sf, nil, nil)
			setups[job.Pkg+"."+job.Setup] = true
		}
		x.logUndo = true
		x.atoms = !job.NoAtoms
		x.mapOrders = job.MapOrder
		args := make([]Value, len(job.Args))
		for i, a := range job.Args {
			args[i] = Str{S: a}
		}
		x.callSSA(fn, []Value{Slice{Data: args}}, nil)
	}()
	x.logUndo = false
	x.rollback()
	out.violations = x.violations
	out.reaches = x.reaches
	out.notes = x.notes
	out.steps = x.Steps
	out.decisions = len(x.taken)
	out.unknown = x.unknownQ
	out.aUnsat, out.aConst = x.nAssertUnsat, x.nAssertConst
	h := uint64(14695981039346656037)
	for _, d := range x.taken {
		h = (h ^ d) * 1099511628211
		h ^= h >> 29
	}
	out.sig = h
	if strings.HasPrefix(out.end, "unsupported") || strings.HasPrefix(out.end, "bound-exceeded") || out.unknown > 0 {
		// results on such paths are kept (violations are still replayed natively), the path counts as inconclusive
	}
	record()
}

func trimStack(st string) string {
	lines := strings.Split(st, "\n")
	var keep []string
	for _, l := range lines {
		if strings.Contains(l, "/verif/engine/") {
			keep = append(keep, strings.TrimSpace(l))
		}
		if len(keep) >= 8 {
			break
		}
	}
	return strings.Join(keep, "\n")
}

var stubCache sync.Map

// harnessStubs finds verifStub_<pkg>_<Func> functions in the harness package.
func harnessStubs(pkg *ssa.Package) map[string]*ssa.Function {
	if v, ok := stubCache.Load(pkg); ok {
		return v.(map[string]*ssa.Function)
	}
	m := map[string]*ssa.Function{}
	for name, mem := range pkg.Members {
		if f, ok := mem.(*ssa.Function); ok && strings.HasPrefix(name, "verifStub_") {
			parts := strings.SplitN(strings.TrimPrefix(name, "verifStub_"), "_", 2)
			if len(parts) == 2 {
				m[modPath+"/"+parts[0]+"."+parts[1]] = f
			}
		}
		// optional stubs: only active after the harness called vStubOn(<pkg>.<Func>)
		if f, ok := mem.(*ssa.Function); ok && strings.HasPrefix(name, "verifStubOpt_") {
			parts := strings.SplitN(strings.TrimPrefix(name, "verifStubOpt_"), "_", 2)
			if len(parts) == 2 {
				m["opt:"+modPath+"/"+parts[0]+"."+parts[1]] = f
			}
		}
	}
	stubCache.Store(pkg, m)
	return m
}

func sortedKeys[V any](m map[string]V) []string {
	ks := make([]string, 0, len(m))
	for k := range m {
		ks = append(ks, k)
	}
	sort.Strings(ks)
	return ks
}
